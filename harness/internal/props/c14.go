package props

import (
	"bytes"
	"context"
	"errors"
	"fmt"
	"io"
	"net/http"
	"net/http/httptest"
	"net/url"
	"runtime"
	"strings"
	"sync"
	"sync/atomic"
	"time"

	connect "github.com/bufbuild/connect-go"
	"github.com/bufbuild/connect-go/verifharness/internal/h"
)

// ---------------------------------------------------------------------------
// A context whose end the harness decides.
// ---------------------------------------------------------------------------

type ctlCtx struct {
	context.Context
	done chan struct{}
	mu   sync.Mutex
	err  error
}

func newCtlCtx() *ctlCtx { return &ctlCtx{Context: context.Background(), done: make(chan struct{})} }

func (c *ctlCtx) Done() <-chan struct{} { return c.done }
func (c *ctlCtx) Err() error {
	c.mu.Lock()
	defer c.mu.Unlock()
	return c.err
}
func (c *ctlCtx) Deadline() (time.Time, bool) { return time.Time{}, false }
func (c *ctlCtx) end(err error) {
	c.mu.Lock()
	if c.err == nil {
		c.err = err
		close(c.done)
	}
	c.mu.Unlock()
}

type ctxKind int

const (
	kCanceled ctxKind = iota
	kDeadline
)

func (k ctxKind) err() error {
	if k == kDeadline {
		return context.DeadlineExceeded
	}
	return context.Canceled
}
func (k ctxKind) coq() string {
	if k == kDeadline {
		return "DeadlineExceeded"
	}
	return "Canceled"
}
func (k ctxKind) code() connect.Code {
	if k == kDeadline {
		return connect.CodeDeadlineExceeded
	}
	return connect.CodeCanceled
}

// ---------------------------------------------------------------------------
// Scripted transport: an HTTPClient whose every step the harness decides.
// It honours the request's context the way net/http does: Do fails with a
// *url.Error wrapping ctx.Err() when the context ends before the response
// headers, and a body read blocked for data fails with ctx.Err().
// ---------------------------------------------------------------------------

type sBody struct {
	mu     sync.Mutex
	data   []byte
	fin    int // 0 more may come, 1 EOF, 2 error
	finErr error
	wake   chan struct{}
	ctx    context.Context
	closes atomic.Int32
	// net/http fills Response.Trailer when the body read reaches EOF, not before
	pendingTrailer http.Header
	trailer        http.Header
	tr             *sTransport
	rstOnCtx       string // see ctxWakeErr
}

func newSBody(ctx context.Context) *sBody { return &sBody{wake: make(chan struct{}, 1), ctx: ctx} }

func (b *sBody) push(p []byte) {
	b.mu.Lock()
	b.data = append(b.data, p...)
	b.mu.Unlock()
	select {
	case b.wake <- struct{}{}:
	default:
	}
}

func (b *sBody) finish(err error) {
	b.mu.Lock()
	if b.fin == 0 {
		if err == nil {
			b.fin = 1
		} else {
			b.fin, b.finErr = 2, err
		}
	}
	b.mu.Unlock()
	select {
	case b.wake <- struct{}{}:
	default:
	}
}

// ctxWakeErr is what a body read woken by the end of the context reports: the context's
// error, or — when rstOnCtx is set — the reset the peer sent at about the same moment (a server
// enforcing the announced timeout resets the stream when the deadline passes)
func (b *sBody) ctxWakeErr() error {
	b.mu.Lock()
	code := b.rstOnCtx
	b.mu.Unlock()
	if code != "" {
		return h.ErrRST{Code: code}
	}
	return b.ctx.Err()
}

func (b *sBody) Read(p []byte) (int, error) {
	for {
		b.mu.Lock()
		if len(b.data) > 0 {
			n := copy(p, b.data)
			b.data = b.data[n:]
			b.mu.Unlock()
			return n, nil
		}
		if b.fin == 1 {
			for k, vs := range b.pendingTrailer {
				b.trailer[k] = vs
			}
			b.pendingTrailer = nil
			b.mu.Unlock()
			return 0, io.EOF
		}
		if b.fin == 2 {
			err := b.finErr
			b.mu.Unlock()
			return 0, err
		}
		b.mu.Unlock()
		// What wakes a body read that waits for data (net/http's HTTP/2 transport):
		// data or the end of the body; the stream being aborted because the transport
		// found the request body closed under it; the end of the context once the
		// request has been sent completely (from then on the transport watches it).
		// While the request side is open, the end of the context alone wakes nothing.
		select {
		case <-b.wake:
		case <-time.After(200 * time.Microsecond):
			if b.tr != nil {
				select {
				case <-b.tr.abort:
					if err := b.ctx.Err(); err != nil {
						return 0, err
					}
					return 0, errors.New("http2: stream aborted: request body closed")
				default:
				}
				if b.tr.reqEOF.Load() && b.ctx.Err() != nil {
					return 0, b.ctxWakeErr()
				}
			} else if b.ctx.Err() != nil {
				return 0, b.ctxWakeErr()
			}
		}
	}
}

func (b *sBody) Close() error {
	b.closes.Add(1)
	b.finish(errors.New("http: read on closed response body"))
	return nil
}

type sTransport struct {
	gate     chan struct{} // closed: Do may return
	gateOnce sync.Once
	doErr    error
	resp     *http.Response
	pause    atomic.Bool
	drained  chan struct{}
	doCalls  atomic.Int32
	abort    chan struct{} // closed when the transport finds the request body closed under it (it then aborts the stream)
	reqEOF   atomic.Bool   // the request body was read to its end
	doDone   atomic.Bool   // Do has returned: from here on net/http's HTTP/2 transport does not watch the context while it waits on the request body
	reqEnd   atomic.Value  // string: how the request body ended, as the transport saw it
}

func (t *sTransport) open() { t.gateOnce.Do(func() { close(t.gate) }) }

func (t *sTransport) Do(req *http.Request) (*http.Response, error) {
	t.doCalls.Add(1)
	ctx := req.Context()
	go func() {
		defer close(t.drained)
		buf := make([]byte, 4096)
		for {
			for t.pause.Load() {
				select {
				case <-ctx.Done():
					if !t.doDone.Load() {
						// RoundTrip itself watches the context and closes the request body when it gives up
						_ = req.Body.Close()
						t.reqEnd.Store("closed by the transport on cancellation")
						return
					}
					time.Sleep(200 * time.Microsecond)
				case <-time.After(200 * time.Microsecond):
				}
			}
			_, err := req.Body.Read(buf)
			if err != nil {
				if err == io.EOF {
					t.reqEnd.Store("eof")
					t.reqEOF.Store(true)
				} else {
					t.reqEnd.Store(err.Error())
					close(t.abort)
				}
				return
			}
		}
	}()
	defer t.doDone.Store(true)
	fail := func(err error) (*http.Response, error) {
		return nil, &url.Error{Op: "Post", URL: req.URL.String(), Err: err}
	}
	if err := ctx.Err(); err != nil {
		return fail(err)
	}
	select {
	case <-t.gate:
	case <-ctx.Done():
		return fail(ctx.Err())
	}
	if t.doErr != nil {
		return fail(t.doErr)
	}
	t.resp.Request = req
	return t.resp, nil
}

// ---------------------------------------------------------------------------
// Yield-point controller (tag verif: connect.VerifSetYield).
// ---------------------------------------------------------------------------

type yieldCtl struct {
	mu      sync.Mutex
	counts  map[string]int
	actions map[string]func(n int) // called outside mu
	arrived map[string]chan struct{}
	hold    map[string]chan struct{} // the library goroutine waits here
	delay   map[string]time.Duration
}

func newYieldCtl() *yieldCtl {
	return &yieldCtl{counts: map[string]int{}, actions: map[string]func(int){}, arrived: map[string]chan struct{}{}, hold: map[string]chan struct{}{}, delay: map[string]time.Duration{}}
}

func (y *yieldCtl) hook(point string) {
	y.mu.Lock()
	y.counts[point]++
	n := y.counts[point]
	act := y.actions[point]
	arr := y.arrived[point]
	hold := y.hold[point]
	d := y.delay[point]
	y.mu.Unlock()
	if arr != nil {
		select {
		case arr <- struct{}{}:
		default:
		}
	}
	if act != nil {
		act(n)
	}
	if d > 0 {
		time.Sleep(d)
	}
	if hold != nil {
		<-hold
	}
}

func (y *yieldCtl) setAction(point string, f func(n int)) {
	y.mu.Lock()
	if f == nil {
		delete(y.actions, point)
	} else {
		y.actions[point] = f
	}
	y.mu.Unlock()
}

func (y *yieldCtl) count(point string) int {
	y.mu.Lock()
	defer y.mu.Unlock()
	return y.counts[point]
}

// ---------------------------------------------------------------------------
// Classes of results, as in Call.v.
// ---------------------------------------------------------------------------

func clsOf(err error) string {
	switch {
	case err == nil:
		return "COk"
	case errors.Is(err, io.EOF):
		return "CEof"
	}
	return fmt.Sprintf("(CCode %d)", uint32(connect.CodeOf(err)))
}

func libraryGoroutines() []string {
	buf := make([]byte, 1<<20)
	n := runtime.Stack(buf, true)
	var out []string
	for _, g := range strings.Split(string(buf[:n]), "\n\n") {
		if strings.Contains(g, "connect-go.(*duplexHTTPCall)") && !strings.Contains(g, "verifharness/internal/props.libraryGoroutines") {
			lines := strings.Split(g, "\n")
			if len(lines) > 6 {
				lines = lines[:6]
			}
			out = append(out, strings.Join(lines, " | "))
		}
	}
	return out
}

func waitNoLibraryGoroutines(d time.Duration) []string {
	deadline := time.Now().Add(d)
	for {
		gs := libraryGoroutines()
		if len(gs) == 0 || time.Now().After(deadline) {
			return gs
		}
		time.Sleep(2 * time.Millisecond)
	}
}

// ---------------------------------------------------------------------------
// One scripted call.
// ---------------------------------------------------------------------------

type dxCall struct {
	rng    *h.Rng // choices made while the call runs
	r      *h.Run
	mode   string // "C14" | "C15": which property's oracles apply
	fam    string
	cfg    envCfg
	ctx    *ctlCtx
	tr     *sTransport
	body   *sBody
	yc     *yieldCtl
	st     connect.StreamingClientConn // the (error-translating) conn under the typed stream, captured by an interceptor
	stype  string                      // "bidi" | "client": the stream type of the call
	hold   chan struct{}               // do.exit waits here
	opsCoq []string
	obs    []string
	desc   []string
	fired  []bool // the operation was interrupted by the end of the context

	started, returned, ready bool
	ctxEnded                 bool
	kind                     ctxKind
	finalConsumed            bool // a terminal item was handed to a Receive
	bodyFinished             bool // the body has its end
	closedResp               bool
	doOK                     bool // Do returned a response
	tainted                  bool // something other than the cancellation went wrong first (C15 oracle scope)
	recvFailed               string
	timedOut                 bool
	trailer                  http.Header
	doExitArrived            chan struct{}
}

const dxWatchdog = 3 * time.Second

func newDxCall(r *h.Run, mode, fam string, cfg envCfg, status int, protoMajor int) *dxCall {
	return newDxCallKind(r, mode, fam, "bidi", cfg, status, protoMajor)
}

func newDxCallKind(r *h.Run, mode, fam, kind string, cfg envCfg, status int, protoMajor int) *dxCall {
	c := &dxCall{r: r, rng: r.Rng.Fork(fmt.Sprint("dxcall", mode, fam, kind, cfg, status, protoMajor, r.Sum.Evaluations)), mode: mode, fam: fam, stype: kind, cfg: cfg, ctx: newCtlCtx(), yc: newYieldCtl(), hold: make(chan struct{}), doExitArrived: make(chan struct{}, 4)}
	c.body = newSBody(c.ctx)
	hdr := http.Header{}
	hdr.Set("Content-Type", cfg.contentType(false))
	c.trailer = http.Header{}
	c.body.trailer = c.trailer
	resp := h.NewResponse(status, hdr, c.body, c.trailer)
	resp.ProtoMajor, resp.ProtoMinor = protoMajor, 0
	if protoMajor == 1 {
		resp.ProtoMinor = 1
	}
	c.tr = &sTransport{gate: make(chan struct{}), resp: resp, drained: make(chan struct{}), abort: make(chan struct{})}
	c.body.tr = c.tr
	c.yc.hold["do.exit"] = c.hold
	c.yc.arrived["do.exit"] = c.doExitArrived
	connect.VerifSetYield(c.yc.hook)
	opts := append(clientOpts(cfg, ""), connect.WithInterceptors(connCapture{&c.st}))
	client := connect.NewClient[h.Raw, h.Raw](c.tr, "http://scripted.invalid/verif.Svc/Stream", opts...)
	if kind == "client" {
		_ = client.CallClientStream(c.ctx)
	} else {
		_ = client.CallBidiStream(c.ctx)
	}
	return c
}

func (c *dxCall) record(op, cls, what string) { c.recordF(op, cls, what, false) }

func (c *dxCall) recordF(op, cls, what string, fired bool) {
	c.fired = append(c.fired, fired)
	c.opsCoq = append(c.opsCoq, op)
	c.obs = append(c.obs, cls)
	c.desc = append(c.desc, what+" -> "+cls)
}

// guarded runs f under the watchdog; on a hang it reports and marks the call.
func (c *dxCall) guarded(what string, f func() error) (error, bool) {
	ch := make(chan error, 1)
	go func() { ch <- f() }()
	select {
	case err := <-ch:
		return err, true
	case <-time.After(dxWatchdog):
		c.timedOut = true
		c.r.Fail(h.Failure{Key: "hang/" + strings.Fields(what)[0], Family: c.fam, What: what + " did not return within " + dxWatchdog.String(),
			Input: map[string]any{"protocol": c.cfg.Proto, "stream_type": c.stype, "operations": c.desc}})
		return nil, false
	}
}

// blockedFor reports whether f is still running after d; the result arrives on the channel.
func blockedFor(d time.Duration, f func() error) (bool, chan error) {
	ch := make(chan error, 1)
	go func() { ch <- f() }()
	select {
	case err := <-ch:
		ch <- err
		return false, ch
	case <-time.After(d):
		return true, ch
	}
}

func (c *dxCall) waitDoExit() bool {
	select {
	case <-c.doExitArrived:
		return true
	case <-time.After(dxWatchdog):
		c.timedOut = true
		c.r.Fail(h.Failure{Key: "hang/request-goroutine", Family: c.fam, What: "the request goroutine did not reach its end after Do returned",
			Input: map[string]any{"protocol": c.cfg.Proto, "stream_type": c.stype, "operations": c.desc}})
		return false
	}
}

// afterStartOrCancel emits the goroutine step the scripted transport performs
// on its own: Do fails with the context's error as soon as the request is
// started and the context has ended.
func (c *dxCall) implicitDo() {
	if c.started && !c.returned && c.ctxEnded {
		if !c.waitDoExit() {
			return
		}
		c.returned = true
		c.record(fmt.Sprintf("AGateDo (DoErr (CtxErr %s))", c.kind.coq()), "CNone", "[Do fails with the context's error]")
	}
}

func (c *dxCall) endCtx(k ctxKind) {
	if !c.ctxEnded {
		c.ctxEnded, c.kind = true, k
	}
	c.ctx.end(k.err())
}

func (c *dxCall) send(mid *ctxKind) {
	what := "Send"
	op := "ASend None"
	if mid != nil {
		what = "Send (context ends between the prefix write and the payload write)"
		op = fmt.Sprintf("ASend (Some %s)", mid.coq())
		base := c.yc.count("write.enter")
		k := *mid
		c.yc.setAction("write.enter", func(n int) {
			if n == base+2 {
				c.ctx.end(k.err())
			}
		})
	}
	err, ok := c.guarded(what, func() error { return c.st.Send(&h.Raw{B: []byte("payload")}) })
	c.yc.setAction("write.enter", nil)
	if !ok {
		return
	}
	c.started = true
	fired := false
	if mid != nil && c.ctx.Err() != nil && !c.ctxEnded {
		c.ctxEnded, c.kind = true, *mid
		fired = true
	}
	c.recordF(op, clsOf(err), what, fired)
	c.implicitDo()
}

func (c *dxCall) sendBlocked(k ctxKind) {
	c.tr.pause.Store(true)
	defer c.tr.pause.Store(false)
	// give the drain goroutine time to notice the pause
	time.Sleep(2 * time.Millisecond)
	blocked, ch := blockedFor(15*time.Millisecond, func() error { return c.st.Send(&h.Raw{B: []byte("payload")}) })
	c.started = true
	if blocked {
		c.endCtx(k)
	}
	var err error
	select {
	case err = <-ch:
	case <-time.After(dxWatchdog):
		c.timedOut = true
		c.r.Fail(h.Failure{Key: "hang/Send", Family: c.fam, What: "a Send blocked on the request pipe did not return after the context ended",
			Input: map[string]any{"protocol": c.cfg.Proto, "stream_type": c.stype, "operations": c.desc}})
		return
	}
	c.recordF(fmt.Sprintf("ASendBlocked %s", k.coq()), clsOf(err), "Send (blocked on the pipe when the context ends)", blocked)
	c.implicitDo()
}

func (c *dxCall) closeReq() {
	err, ok := c.guarded("CloseRequest", func() error { return c.st.CloseRequest() })
	if !ok {
		return
	}
	c.started = true
	c.record("ACloseReq", clsOf(err), "CloseRequest")
	c.implicitDo()
}

// gateDo lets Do return. kind: "ok", "fail" (transport error), "status" (HTTP 503), "http1"
func (c *dxCall) gateDo(kind string) {
	if !c.started || c.returned {
		return
	}
	op := "AGateDo (DoResp None false)"
	switch kind {
	case "fail":
		c.tr.doErr = errors.New("dial tcp: connection refused")
		op = "AGateDo (DoErr Plain)"
		if !c.ctxEnded {
			c.tainted = true // (once the context has ended, a failing Do is the context's doing: not another cause)
		}
	case "status":
		c.tr.resp.StatusCode, c.tr.resp.Status = 503, "503 Service Unavailable"
		op = "AGateDo (DoResp (Some (Coded 14)) false)"
		c.tainted = true
		c.doOK = true
	case "http1":
		c.tr.resp.ProtoMajor, c.tr.resp.ProtoMinor = 1, 1
		c.doOK = true
		if c.stype == "bidi" {
			// only bidi streams refuse an HTTP/1.x response
			op = "AGateDo (DoResp None true)"
			c.tainted = true
		}
	default:
		c.doOK = true
	}
	c.tr.open()
	if !c.waitDoExit() {
		return
	}
	c.returned = true
	c.record(op, "CNone", "[Do returns: "+kind+"]")
}

func (c *dxCall) gateReady() {
	if !c.returned || c.ready {
		return
	}
	close(c.hold)
	c.ready = true
	c.record("AGateReady", "CNone", "[responseReady is closed]")
}

func (c *dxCall) ensureReady() {
	c.gateDo("ok")
	c.gateReady()
}

type dxItem struct {
	kind string // msg | endok | enderr | trunc | fail | failmid
	code connect.Code
}

func (it dxItem) coq() string {
	switch it.kind {
	case "endok":
		return "IEndOk"
	case "enderr":
		return fmt.Sprintf("(IEndErr %d)", uint32(it.code))
	case "trunc":
		return "ITrunc"
	case "fail":
		return "(IFail Plain false)"
	case "failmid":
		return "(IFail Plain true)"
	}
	return "IMsg"
}

// feed makes the body yield the item to the next Receive.
func (c *dxCall) feed(it dxItem) {
	if c.bodyFinished {
		return
	}
	switch it.kind {
	case "msg":
		c.body.push(h.Frame(0, []byte("reply")))
		return
	case "endok", "enderr":
		v := verdict{Kind: "ok"}
		if it.kind == "enderr" {
			v = verdict{Kind: "err", Code: it.code}
		}
		term, tr := terminatorFor(c.cfg, v)
		c.body.mu.Lock()
		c.body.pendingTrailer = tr
		c.body.mu.Unlock()
		c.body.push(term)
		c.body.finish(nil)
	case "trunc":
		c.body.finish(nil)
	case "fail":
		c.body.finish(errors.New("connection reset by peer"))
	case "failmid":
		c.body.push(h.Frame(0, []byte("reply"))[:8])
		c.body.finish(errors.New("connection reset by peer"))
	}
	c.bodyFinished = true
}

func (c *dxCall) recv(it dxItem) { c.recvOpt(it, nil) }

// recvOpt: with cancelWhileWaiting set, the context ends while Receive waits
// for the response to become ready.
func (c *dxCall) recvOpt(it dxItem, cancelWhileWaiting *ctxKind) {
	if !c.started {
		return
	}
	receive := func() error { var m h.Raw; return c.st.Receive(&m) }
	if !c.ready {
		blocked, ch := blockedFor(15*time.Millisecond, receive)
		if !blocked {
			c.r.Fail(h.Failure{Key: "ready/receive-before-response", Family: c.fam, What: "Receive returned before the request goroutine had published the response",
				Input: map[string]any{"protocol": c.cfg.Proto, "stream_type": c.stype, "operations": c.desc}})
			<-ch
			return
		}
		c.record("ARecv "+it.coq(), "CBlocked", "Receive (response not ready)")
		if cancelWhileWaiting != nil {
			c.cancel(*cancelWhileWaiting)
		}
		c.feed(it)
		c.ensureReady()
		select {
		case err := <-ch:
			c.noteRecv(it, err)
			c.record("ARecv "+it.coq(), clsOf(err), "Receive (resumed)")
		case <-time.After(dxWatchdog):
			c.timedOut = true
			c.r.Fail(h.Failure{Key: "hang/Receive", Family: c.fam, What: "Receive did not return after the response became ready",
				Input: map[string]any{"protocol": c.cfg.Proto, "stream_type": c.stype, "operations": c.desc}})
		}
		return
	}
	c.feed(it)
	err, ok := c.guarded("Receive", receive)
	if !ok {
		return
	}
	c.noteRecv(it, err)
	c.record("ARecv "+it.coq(), clsOf(err), "Receive")
}

func (c *dxCall) noteRecv(it dxItem, err error) {
	if err != nil && c.recvFailed == "" {
		c.recvFailed = clsOf(err)
		if !c.ctxEnded {
			c.tainted = true
		}
	}
	if it.kind != "msg" {
		c.finalConsumed = true
	}
}

func (c *dxCall) recvCancel(k ctxKind) {
	if !c.ready {
		return
	}
	receive := func() error { var m h.Raw; return c.st.Receive(&m) }
	// in a third of the cases the peer resets the stream at about the moment the context ends
	// (CANCEL is what a server enforcing the announced timeout sends): the transport reports
	// the reset, and the context has ended — the context's code is the call's
	rst := ""
	if c.body != nil && c.rng.Intn(3) == 0 {
		rst = []string{"CANCEL", "INTERNAL_ERROR", "REFUSED_STREAM", "NO_ERROR"}[c.rng.Intn(4)]
		c.body.mu.Lock()
		c.body.rstOnCtx = rst
		c.body.mu.Unlock()
	}
	blocked, ch := blockedFor(15*time.Millisecond, receive)
	if blocked {
		c.endCtx(k)
	}
	what := "Receive (blocked in the body read when the context ends)"
	if rst != "" {
		what = "Receive (blocked in the body read when the context ends; the transport reports RST_STREAM " + rst + " received from the peer)"
	}
	select {
	case err := <-ch:
		c.noteRecv(dxItem{kind: "msg"}, err)
		c.recordF(fmt.Sprintf("ARecvCancel %s", k.coq()), clsOf(err), what, blocked)
	case <-time.After(dxWatchdog):
		c.timedOut = true
		c.r.Fail(h.Failure{Key: "hang/Receive", Family: c.fam, What: "a Receive blocked in the body read did not return after the context ended",
			Input: map[string]any{"protocol": c.cfg.Proto, "stream_type": c.stype, "operations": c.desc}})
	}
}

func (c *dxCall) cancel(k ctxKind) {
	c.endCtx(k)
	c.record(fmt.Sprintf("ACancel %s", c.kind.coq()), "CNone", "[the context ends: "+c.kind.coq()+"]")
	c.implicitDo()
}

func (c *dxCall) closeResp(failDiscard bool) {
	if !c.started || c.closedResp {
		return
	}
	if !c.ready {
		blocked, ch := blockedFor(15*time.Millisecond, func() error { return c.st.CloseResponse() })
		if !blocked {
			c.r.Fail(h.Failure{Key: "ready/close-before-response", Family: c.fam, What: "CloseResponse returned before the request goroutine had published the response",
				Input: map[string]any{"protocol": c.cfg.Proto, "stream_type": c.stype, "operations": c.desc}})
			<-ch
			return
		}
		rest := c.prepareDiscard(failDiscard)
		c.record("ACloseResp "+rest, "CBlocked", "CloseResponse (response not ready)")
		c.ensureReady()
		select {
		case err := <-ch:
			c.closedResp = true
			c.record("ACloseResp "+rest, clsOf(err), "CloseResponse (resumed)")
		case <-time.After(dxWatchdog):
			c.timedOut = true
			c.r.Fail(h.Failure{Key: "hang/CloseResponse", Family: c.fam, What: "CloseResponse did not return after the response became ready",
				Input: map[string]any{"protocol": c.cfg.Proto, "stream_type": c.stype, "operations": c.desc}})
		}
		return
	}
	rest := c.prepareDiscard(failDiscard)
	err, ok := c.guarded("CloseResponse", func() error { return c.st.CloseResponse() })
	if !ok {
		return
	}
	c.closedResp = true
	c.record("ACloseResp "+rest, clsOf(err), "CloseResponse")
}

// prepareDiscard gives the body an end so that draining it terminates, and
// returns the Coq term for what the drain will meet.
func (c *dxCall) prepareDiscard(fail bool) string {
	if !c.bodyFinished {
		if fail {
			c.body.finish(errors.New("connection reset by peer"))
		} else {
			c.body.finish(nil)
		}
		c.bodyFinished = true
	}
	c.body.mu.Lock()
	defer c.body.mu.Unlock()
	if c.body.fin == 2 {
		return "(Some Plain)"
	}
	return "None"
}

// finish ends the call the way the property prescribes (close the request
// side, then the response side), checks what must hold afterwards, and emits
// the case.
func (c *dxCall) finish(label string) {
	defer connect.VerifSetYield(nil)
	byCancel := c.mode == "C14" && c.ctxEnded
	if !c.timedOut && !byCancel {
		if !(c.started && c.ctxEnded) {
			c.closeReq()
		}
	}
	if !c.timedOut && !byCancel {
		c.closeResp(false)
	}
	// let everything go
	c.tr.open()
	if !c.ready {
		select {
		case <-c.hold:
		default:
			close(c.hold)
		}
	}
	c.body.finish(nil)
	if c.timedOut {
		c.ctx.end(context.Canceled)
		return
	}
	input := map[string]any{"protocol": c.cfg.Proto, "stream_type": c.stype, "operations": c.desc}
	closes := int(c.body.closes.Load())
	if c.mode == "C14" {
		if byCancel {
			input["finished_by"] = "cancelling the context"
		} else {
			input["finished_by"] = "CloseRequest, CloseResponse"
			// the transport must have seen the end of the request body
			select {
			case <-c.tr.drained:
			case <-time.After(dxWatchdog):
				if c.tr.doCalls.Load() > 0 {
					c.r.Fail(h.Failure{Key: "leak/request-body-open", Family: c.fam, What: "the transport is still reading the request body after the client closed both sides", Input: input})
				}
			}
			if c.doOK && c.closedResp && closes != 1 {
				c.r.Fail(h.Failure{Key: "leak/body-not-closed", Family: c.fam, What: fmt.Sprintf("the response body was closed %d times after CloseResponse (expected once)", closes), Input: input})
			}
		}
		if c.started {
			if gs := waitNoLibraryGoroutines(time.Second); len(gs) > 0 {
				c.r.Fail(h.Failure{Key: "leak/goroutine", Family: c.fam, What: "a goroutine of the library remains after the call was finished", Input: input, Actual: gs})
			}
		}
	}
	c.oracles(input)
	c.r.Eval(c.fam, label+strings.Join(c.opsCoq, ";"))
	c.r.Sample(c.fam, map[string]any{"protocol": c.cfg.Proto, "stream_type": c.stype, "operations": c.desc})
	c.r.Case(c.fam, fmt.Sprintf("CallTrace %s %s %s %d", c.cfg.coqProto(), h.CoqList(c.opsCoq), h.CoqList(c.obs), closes),
		map[string]any{"protocol": c.cfg.Proto, "stream_type": c.stype, "operations": c.desc, "body_closes": closes})
}

// oracles checks the statements of C14 / C15 directly on the observed classes.
func (c *dxCall) oracles(input map[string]any) {
	recvErr := ""
	ctxEnded := false
	var kind ctxKind
	tainted := false
	for i, op := range c.opsCoq {
		cls := c.obs[i]
		name := strings.Fields(op)[0]
		isRecv := strings.HasPrefix(name, "ARecv")
		isSend := strings.HasPrefix(name, "ASend")
		isClose := name == "ACloseResp"
		kindOf := func() ctxKind {
			if strings.Contains(op, "DeadlineExceeded") {
				return kDeadline
			}
			return kCanceled
		}
		switch name {
		case "ACancel":
			if !ctxEnded {
				ctxEnded, kind = true, kindOf()
			}
			continue
		case "AGateDo":
			if !ctxEnded && op != "AGateDo (DoResp None false)" {
				tainted = true
			}
			continue
		}
		if cls == "CBlocked" || cls == "CNone" {
			continue
		}
		if c.fired[i] {
			ctxEnded, kind = true, kindOf()
			want := fmt.Sprintf("(CCode %d)", uint32(kind.code()))
			if c.mode == "C15" && !tainted && cls != want && !(name == "ASendBlocked" && cls == "CEof") {
				c.r.Fail(h.Failure{Key: "cancel/interrupted-" + strings.ToLower(strings.TrimPrefix(name, "A")), Family: c.fam,
					What: "the operation interrupted by the end of the context (" + kind.coq() + ") returned " + cls + " instead of failing with " + want, Input: input, Expected: want, Actual: cls})
			}
			if isRecv && cls != "COk" && recvErr == "" {
				recvErr = cls
			}
			continue
		}
		if isRecv {
			if c.mode == "C14" && recvErr != "" && cls == "COk" {
				c.r.Fail(h.Failure{Key: "receive/error-not-sticky", Family: c.fam, What: "after Receive reported " + recvErr + " a later Receive succeeded", Input: input})
			}
			if cls != "COk" && recvErr == "" {
				recvErr = cls
				if !ctxEnded {
					tainted = true
				}
			}
		}
		if c.mode == "C14" && isSend && recvErr != "" && !ctxEnded && cls != "CEof" {
			c.r.Fail(h.Failure{Key: "send/after-receive-error-not-eof", Family: c.fam, What: "after Receive reported " + recvErr + " a Send returned " + cls + " instead of the error wrapping io.EOF", Input: input})
		}
		if c.mode == "C15" && ctxEnded && !tainted && (isRecv || isSend || isClose) {
			want := fmt.Sprintf("(CCode %d)", uint32(kind.code()))
			if cls != want && !(isClose && cls == "COk") {
				c.r.Fail(h.Failure{Key: "cancel/after-" + strings.ToLower(strings.TrimPrefix(name, "A")), Family: c.fam,
					What: "after the context ended (" + kind.coq() + ") an operation returned " + cls + " instead of failing with " + want, Input: input, Expected: want, Actual: cls})
			}
		}
	}
}

// dxRandom performs one random scripted call.
func dxRandom(r *h.Run, rng *h.Rng, mode, fam string, cfg envCfg, delays []string) {
	kind := "bidi"
	if rng.Chance(35) {
		kind = "client"
	}
	c := newDxCallKind(r, mode, fam, kind, cfg, 200, 2)
	for _, p := range delays {
		c.yc.delay[p] = time.Duration(300+rng.Intn(1200)) * time.Microsecond
	}
	kindOf := func() ctxKind {
		if rng.Bool() {
			return kDeadline
		}
		return kCanceled
	}
	gate := func() {
		x := rng.Intn(100)
		switch {
		case x < 70:
			c.gateDo("ok")
		case x < 80:
			c.gateDo("fail")
		case x < 90:
			c.gateDo("status")
		default:
			c.gateDo("http1")
		}
	}
	item := func() dxItem {
		x := rng.Intn(100)
		switch {
		case x < 55:
			return dxItem{kind: "msg"}
		case x < 65:
			return dxItem{kind: "endok"}
		case x < 80:
			return dxItem{kind: "enderr", code: connect.Code(1 + rng.Intn(16))}
		case x < 87:
			return dxItem{kind: "trunc"}
		case x < 94:
			return dxItem{kind: "fail"}
		}
		return dxItem{kind: "failmid"}
	}
	plain := func(final bool) {
		// one step of a live call
		w := rng.Intn(100)
		switch {
		case w < 28:
			c.send(nil)
		case w < 34:
			c.closeReq()
		case w < 48:
			gate()
		case w < 58:
			c.gateReady()
		case w < 94 || !final:
			if final {
				c.recv(item())
			} else {
				c.recv(dxItem{kind: "msg"})
			}
		default:
			c.closeResp(mode == "C14" && rng.Chance(30))
		}
	}
	if mode == "C14" {
		// C14: programs that finish by closing both sides, or by cancelling
		steps := 3 + rng.Intn(9)
		for i := 0; i < steps && !c.timedOut && !c.closedResp; i++ {
			plain(true)
		}
		if !c.closedResp && !c.timedOut && rng.Chance(35) {
			if c.ready && c.recvFailed == "" && !c.bodyFinished && rng.Bool() {
				// the program ends by cancelling while its Receive waits for the next message
				c.recvCancel(kindOf())
			} else {
				c.cancel(kindOf())
			}
		}
		c.finish(strings.Join(delays, "+") + "|")
		return
	}
	// C15: a prefix of a live call, the end of the context at a chosen kind of
	// instant, then a suffix of further operations
	pre := rng.Intn(7)
	for i := 0; i < pre && !c.timedOut && !c.closedResp; i++ {
		plain(rng.Chance(15))
	}
	k := kindOf()
	if !c.timedOut && !c.closedResp {
		switch rng.Intn(6) {
		case 0:
			c.cancel(k) // between two operations (or before the first)
		case 1:
			c.send(&k) // between the two writes of a Send
		case 2:
			c.sendBlocked(k) // during a Send blocked on the pipe
		case 3:
			// during a Receive that waits for the response
			if !c.started {
				c.send(nil)
			}
			if !c.ready {
				c.recvOpt(dxItem{kind: "msg"}, &k)
			} else {
				c.recvCancel(k)
			}
		case 4, 5:
			// during a Receive blocked in the body read
			if !c.started {
				c.send(nil)
			}
			c.ensureReady()
			if cfg.Max > 0 && !c.bodyFinished && c.recvFailed == "" {
				// ... while it skips a message that is larger than the read limit: the prefix and a
				// few bytes have arrived, the rest has not
				c.body.push(h.FrameLie(0, 1<<20, []byte("sixteen bytes....")))
				c.desc = append(c.desc, "[the peer announces a 1 MiB message (read limit 1024), sends 17 bytes and stalls]")
				c.opsCoq = append(c.opsCoq, "AWatch")
				c.obs = append(c.obs, "CNone")
				c.fired = append(c.fired, false)
			}
			c.recvCancel(k)
		}
	}
	post := 2 + rng.Intn(5)
	for i := 0; i < post && !c.timedOut && !c.closedResp; i++ {
		w := rng.Intn(100)
		switch {
		case w < 35:
			c.send(nil)
		case w < 42:
			c.closeReq()
		case w < 50:
			c.gateReady()
		case w < 88:
			c.recv(item())
		case w < 94:
			c.cancel(kindOf())
		default:
			c.closeResp(false)
		}
	}
	c.finish(strings.Join(delays, "+") + "|")
}

var dxYieldPoints = []string{"write.enter", "write.pipe", "closewrite.pipe", "read.enter", "read.body", "closeread.discard", "seterror.enter", "seterror.closepipe", "do.before", "do.after", "do.exit"}

func dxFamily(r *h.Run, rng *h.Rng, mode, fam string) {
	protos := []string{"connect", "grpc", "grpcweb"}
	n := r.N(60, 400)
	for i := 0; i < n; i++ {
		cfg := envCfg{Proto: protos[i%3]}
		if mode == "C15" && i%4 == 3 {
			cfg.Max = 1024 // a read limit on the client
		}
		dxRandom(r, rng, mode, fam, cfg, nil)
	}
	// a delay at every single synchronisation point; every pair in the thorough tier
	per := r.N(4, 12)
	for _, p := range dxYieldPoints {
		for i := 0; i < per; i++ {
			dxRandom(r, rng, mode, fam, envCfg{Proto: protos[rng.Intn(3)]}, []string{p})
		}
	}
	if r.Thorough() {
		for i, p := range dxYieldPoints {
			for _, q := range dxYieldPoints[i+1:] {
				for k := 0; k < 4; k++ {
					dxRandom(r, rng, mode, fam, envCfg{Proto: protos[rng.Intn(3)]}, []string{p, q})
				}
			}
		}
	}
	if mode == "C15" {
		// fixed scenarios: the response headers have arrived (net/http's HTTP/2 transport
		// no longer watches the context on the request side), then the context ends
		// during a Send blocked on the pipe; both stream types that keep the request open
		for _, stype := range []string{"bidi", "client"} {
			for _, proto := range protos {
				for _, k := range []ctxKind{kCanceled, kDeadline} {
					for _, ready := range []bool{true, false} {
						c := newDxCallKind(r, mode, fam, stype, envCfg{Proto: proto}, 200, 2)
						c.send(nil)
						c.gateDo("ok")
						if ready {
							c.gateReady()
						}
						c.sendBlocked(k)
						if !c.timedOut {
							c.send(nil)
							c.recv(dxItem{kind: "msg"})
						}
						c.finish("blocked-send-after-headers|")
					}
				}
			}
		}
	}
	r.Sum.Exhaustive[fam+": a delay at every single yield point of the duplex call"] = true
}

// C14 — every call terminates and releases what it acquired.
func C14(r *h.Run) {
	r.Model("c14case", "c14_ok")
	r.Sum.Rule = "scripted transport: random operation sequences over {Send, Send interrupted, CloseRequest, Receive(item), Receive interrupted, CloseResponse, cancel} x {when Do returns, how, when responseReady closes} x 3 protocols, delays at every yield point; every operation under a watchdog; goroutine census, Close count and request-body end after each call; classes of all results compared with Call.api_run. live: real handlers over HTTP/1.1 and HTTP/2."
	rng := r.Rng.Fork("c14")
	dxFamily(r, rng, "C14", "scripted_call")
	liveFamily(r, rng.Fork("live"), "live_call", false)
}

// C15 — cancellation and expiry surface as canceled / deadline_exceeded.
func C15(r *h.Run) {
	r.Model("c14case", "c14_ok")
	r.Sum.Rule = "scripted transport: as C14 with the end of the context (cancel / deadline) injected before the call, between any two operations, between the two writes of a Send, during a Send blocked on the pipe, during a Receive blocked on the response or in the body read; live: real handlers over HTTP/1.1 and HTTP/2, cancellation at random instants, the handler's context must end; a handler returning its context's error."
	rng := r.Rng.Fork("c15")
	dxFamily(r, rng, "C15", "scripted_cancel")
	c15DeadlineWhileReceiving(r)
	c15ServerStreamBlockedSend(r)
	c15CloseFailsAfterContextEnd(r)
	liveFamily(r, rng.Fork("live"), "live_cancel", true)
}

// stallBody delivers its first chunk at once and the rest after a pause (a slow upload).
type stallBody struct {
	chunks [][]byte
	pause  time.Duration
	i      int
}

func (b *stallBody) Read(p []byte) (int, error) {
	if b.i >= len(b.chunks) {
		return 0, io.EOF
	}
	if b.i == 1 {
		time.Sleep(b.pause)
	}
	n := copy(p, b.chunks[b.i])
	if n < len(b.chunks[b.i]) {
		b.chunks[b.i] = b.chunks[b.i][n:]
		return n, nil
	}
	b.i++
	return n, nil
}
func (b *stallBody) Close() error { return nil }

// c15DeadlineWhileReceiving: the deadline the peer announced passes while the handler is still
// receiving the (slowly uploaded) request message of a unary call, before user code has started:
// the call must end with deadline_exceeded, never with success.
func c15DeadlineWhileReceiving(r *h.Run) {
	for _, proto := range []string{"connect", "grpc", "grpcweb"} {
		for _, pauseMs := range []int{0, 400} {
			cfg := envCfg{Proto: proto}
			ran := false
			handler := connect.NewUnaryHandler("/verif.Svc/Unary", func(_ context.Context, req *connect.Request[h.Raw]) (*connect.Response[h.Raw], error) {
				ran = true // (user code that does not look at its context)
				return connect.NewResponse(&h.Raw{B: []byte("ok")}), nil
			}, cfg.handlerOpts()...)
			payload := []byte("0123456789abcdef")
			body := payload
			if proto != "connect" {
				body = h.Frame(0, payload)
			}
			req := httptest.NewRequest(http.MethodPost, "/verif.Svc/Unary", nil)
			req.ProtoMajor, req.ProtoMinor = 2, 0
			req.Body = &stallBody{chunks: [][]byte{body[:7], body[7:]}, pause: time.Duration(pauseMs) * time.Millisecond}
			req.ContentLength = -1
			req.Header.Set("Content-Type", cfg.contentType(true))
			if proto == "connect" {
				req.Header.Set("Connect-Timeout-Ms", "120")
			} else {
				req.Header.Set("Grpc-Timeout", "120m")
			}
			rec := httptest.NewRecorder()
			timedOut, p := withWatchdog(5*time.Second, func() { handler.ServeHTTP(rec, req) })
			kind := "server"
			if proto == "connect" {
				kind = "unary"
			}
			in := map[string]any{"proto": proto, "kind": "unary", "announced_timeout_ms": 120, "request_body_stalls_for_ms": pauseMs, "user_code": "ignores its context, returns a response"}
			r.Eval("deadline_while_receiving", fmt.Sprint(proto, pauseMs))
			if timedOut || p != nil {
				r.Fail(h.Failure{Key: "handler-deadline/hang-or-panic", Family: "deadline_while_receiving", What: fmt.Sprint("hang or panic: ", p), Input: in})
				continue
			}
			code, _ := peerError(proto, kind, rec)
			r.Sample("deadline_while_receiving", map[string]any{"in": in, "peer_code": code, "user_code_ran": ran})
			switch {
			case pauseMs == 0 && code != "":
				r.Fail(h.Failure{Key: "handler-deadline/control-failed", Family: "deadline_while_receiving", What: "a call served well within its deadline failed", Input: in, Actual: code})
			case pauseMs > 0 && code != "deadline_exceeded":
				got := code
				if got == "" {
					got = "success"
				}
				r.Fail(h.Failure{Key: "handler-deadline/not-deadline-exceeded", Family: "deadline_while_receiving", What: "the deadline passed before the handler's user code started and the peer was answered with " + got, Input: in, Expected: "deadline_exceeded", Actual: fmt.Sprint(got, " user_code_ran=", ran)})
			}
		}
	}
}

// closeFailsBody: a response body that reads fine to its end and whose Close fails (the
// connection underneath was torn down when the context ended).
type closeFailsBody struct {
	io.Reader
	closed int
}

func (b *closeFailsBody) Close() error {
	b.closed++
	return errors.New("close tcp 127.0.0.1:1->127.0.0.1:2: use of closed network connection")
}

// c15CloseFailsAfterContextEnd: the messages of a server stream (or the response of a unary call)
// have been read; the context ends; closing the response then fails in the transport. Whatever
// fails after the context ended fails with the context's code.
func c15CloseFailsAfterContextEnd(r *h.Run) {
	for _, proto := range []string{"connect", "grpc", "grpcweb"} {
		for _, deadline := range []bool{false, true} {
			cfg := envCfg{Proto: proto}
			hdr, term, trailer := responseParts(cfg)
			body := append(h.Frame(0, []byte("one")), term...)
			cb := &closeFailsBody{Reader: bytes.NewReader(body)}
			canned := &h.CannedClient{Build: func(*http.Request) (*http.Response, error) {
				res := h.NewResponse(200, hdr.Clone(), h.NewChunkBody(nil, h.FinCleanEOF), trailer.Clone())
				res.Body = cb
				return res, nil
			}}
			var ctx context.Context
			var cancel context.CancelFunc
			want := connect.CodeCanceled
			if deadline {
				want = connect.CodeDeadlineExceeded
				ctx, cancel = context.WithTimeout(context.Background(), 60*time.Millisecond)
			} else {
				ctx, cancel = context.WithCancel(context.Background())
			}
			var ops []string
			var closeErr error
			timedOut, p := withWatchdog(5*time.Second, func() {
				client := connect.NewClient[h.Raw, h.Raw](canned, "http://verif.local/verif.Svc/M", clientOpts(cfg, "")...)
				st, err := client.CallServerStream(ctx, connect.NewRequest(&h.Raw{B: []byte("q")}))
				ops = append(ops, "CallServerStream -> "+liveCls(err))
				if err != nil {
					return
				}
				ok := st.Receive()
				ops = append(ops, fmt.Sprint("Receive -> ", ok))
				if deadline {
					<-ctx.Done()
				} else {
					cancel()
				}
				ops = append(ops, "[the context ends]")
				closeErr = st.Close()
				ops = append(ops, "Close -> "+liveCls(closeErr))
			})
			cancel()
			in := map[string]any{"proto": proto, "kind": "server", "context": map[bool]string{true: "deadline passes", false: "cancelled"}[deadline], "transport": "the response body reads to its end; its Close fails with 'use of closed network connection'", "operations": ops}
			r.Eval("close_fails_after_context_end", fmt.Sprint(proto, deadline))
			if timedOut || p != nil {
				r.Fail(h.Failure{Key: "cancel/hang-or-panic", Family: "close_fails_after_context_end", What: fmt.Sprint("hang or panic: ", p), Input: in})
				continue
			}
			r.Sample("close_fails_after_context_end", in)
			if closeErr != nil && connect.CodeOf(closeErr) != want {
				r.Fail(h.Failure{Key: "cancel/code/Close", Family: "close_fails_after_context_end", What: "Close failed after the context had ended, with a code other than the context's", Input: in, Expected: want.String(), Actual: closeErr.Error()})
			}
		}
	}
}

// connCapture is an interceptor that records the StreamingClientConn of the call.
type connCapture struct{ dst *connect.StreamingClientConn }

func (connCapture) WrapUnary(next connect.UnaryFunc) connect.UnaryFunc { return next }
func (c connCapture) WrapStreamingClient(next connect.StreamingClientFunc) connect.StreamingClientFunc {
	return func(ctx context.Context, spec connect.Spec) connect.StreamingClientConn {
		conn := next(ctx, spec)
		*c.dst = conn
		return conn
	}
}
func (connCapture) WrapStreamingHandler(next connect.StreamingHandlerFunc) connect.StreamingHandlerFunc {
	return next
}

// c15ServerStreamBlockedSend: CallServerStream sends its one request message itself. The
// transport does not read the request (a stalled dial, a peer that is not draining) when the
// context ends: whatever CallServerStream and the stream it returns report is the context's code.
func c15ServerStreamBlockedSend(r *h.Run) {
	for _, proto := range []string{"connect", "grpc", "grpcweb"} {
		for _, deadline := range []bool{false, true} {
			opts := []connect.ClientOption{connect.WithCodec(h.ToyCodec{})}
			switch proto {
			case "grpc":
				opts = append(opts, connect.WithGRPC())
			case "grpcweb":
				opts = append(opts, connect.WithGRPCWeb())
			}
			stalled := roundTripFunc(func(req *http.Request) (*http.Response, error) {
				<-req.Context().Done() // never reads the body
				return nil, req.Context().Err()
			})
			cl := connect.NewClient[h.Raw, h.Raw](stalled, "http://verif.local/verif.Svc/Server", opts...)
			want := connect.CodeCanceled
			var ctx context.Context
			var cancel context.CancelFunc
			if deadline {
				want = connect.CodeDeadlineExceeded
				ctx, cancel = context.WithTimeout(context.Background(), 80*time.Millisecond)
			} else {
				ctx, cancel = context.WithCancel(context.Background())
				time.AfterFunc(80*time.Millisecond, cancel)
			}
			var callErr, recvErr error
			var gotStream bool
			timedOut, p := withWatchdog(5*time.Second, func() {
				st, err := cl.CallServerStream(ctx, connect.NewRequest(&h.Raw{B: []byte("request")}))
				callErr = err
				if err == nil {
					gotStream = true
					for st.Receive() {
					}
					recvErr = st.Err()
					_ = st.Close()
				}
			})
			cancel()
			in := map[string]any{"proto": proto, "kind": "server", "transport": "does not read the request body (stalled)", "context": map[bool]string{false: "cancelled after 80ms", true: "deadline of 80ms"}[deadline]}
			r.Eval("server_stream_blocked_send", fmt.Sprint(proto, deadline))
			r.Sample("server_stream_blocked_send", map[string]any{"in": in, "CallServerStream": fmt.Sprint(callErr), "stream_error": fmt.Sprint(recvErr)})
			if timedOut || p != nil {
				r.Fail(h.Failure{Key: "hang/CallServerStream", Family: "server_stream_blocked_send", What: fmt.Sprint("hang or panic: ", p), Input: in})
				continue
			}
			got := callErr
			if gotStream {
				got = recvErr
			}
			if got == nil || connect.CodeOf(got) != want {
				r.Fail(h.Failure{Key: "cancel/code/CallServerStream", Family: "server_stream_blocked_send", What: "the context ended while CallServerStream's Send was blocked: the call reports " + fmt.Sprint(got), Input: in, Expected: want.String(), Actual: fmt.Sprint(got)})
			}
		}
	}
}
