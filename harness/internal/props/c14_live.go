package props

import (
	"bytes"
	"context"
	"errors"
	"fmt"
	"io"
	"net/http"
	"net/http/httptest"
	"strconv"
	"strings"
	"sync"
	"sync/atomic"
	"time"

	connect "github.com/bufbuild/connect-go"
	"github.com/bufbuild/connect-go/verifharness/internal/h"
)

// ---------------------------------------------------------------------------
// Live calls: real handlers behind net/http servers (HTTP/1.1 and HTTP/2).
// ---------------------------------------------------------------------------

// hprog is what the handler does, sent to it in a request header.
type hprog struct {
	Recv    int  // messages to receive before responding; -1: until end of request
	Send    int  // messages to send
	Drain   bool // after sending, read the request to its end
	Ret     int  // 0: return nil, otherwise the error code to return
	WaitCtx bool // before returning, wait for the context to end and return its error
	Own     int  // 1: return the error of an own cancelled child context, 2: of an own expired one
	Slow    int  // milliseconds to wait before the first response message
}

func (p hprog) String() string {
	return fmt.Sprintf("%d,%d,%v,%d,%v,%d,%d", p.Recv, p.Send, p.Drain, p.Ret, p.WaitCtx, p.Own, p.Slow)
}

func parseProg(s string) hprog {
	f := strings.Split(s, ",")
	var p hprog
	if len(f) != 7 {
		return p
	}
	p.Recv, _ = strconv.Atoi(f[0])
	p.Send, _ = strconv.Atoi(f[1])
	p.Drain = f[2] == "true"
	p.Ret, _ = strconv.Atoi(f[3])
	p.WaitCtx = f[4] == "true"
	p.Own, _ = strconv.Atoi(f[5])
	p.Slow, _ = strconv.Atoi(f[6])
	return p
}

type hobs struct {
	mu       sync.Mutex
	Received int
	SawEOF   bool
	RecvErr  string
	CtxDone  bool
	CtxErr   string
	SendErr  string
	Started  bool // user code (or the raw endpoint) was entered
	returned chan struct{}
}

type liveEnv struct {
	srv1, srv2 *httptest.Server
	obs        sync.Map // call id -> *hobs
	seq        atomic.Int64
}

const handlerCtxWait = 2 * time.Second

func (e *liveEnv) get(id string) *hobs {
	v, _ := e.obs.LoadOrStore(id, &hobs{returned: make(chan struct{})})
	return v.(*hobs)
}

func (e *liveEnv) finishProg(ctx context.Context, p hprog, o *hobs) error {
	if p.WaitCtx {
		select {
		case <-ctx.Done():
			o.mu.Lock()
			o.CtxDone, o.CtxErr = true, ctx.Err().Error()
			o.mu.Unlock()
			return ctx.Err()
		case <-time.After(handlerCtxWait):
			return connect.NewError(connect.CodeAborted, errors.New("handler context did not end"))
		}
	}
	switch p.Own {
	case 1:
		c2, cancel := context.WithCancel(ctx)
		cancel()
		return c2.Err()
	case 2:
		c2, cancel := context.WithTimeout(ctx, time.Millisecond)
		defer cancel()
		<-c2.Done()
		return c2.Err()
	}
	if p.Ret != 0 {
		return connect.NewError(connect.Code(p.Ret), errors.New("handler says no"))
	}
	return nil
}

func newLiveEnv() *liveEnv {
	e := &liveEnv{}
	mux := http.NewServeMux()
	hopts := []connect.HandlerOption{connect.WithCodec(h.ToyCodec{})}
	reply := func(i int) *h.Raw { return &h.Raw{B: []byte(fmt.Sprintf("reply-%d", i))} }
	// a bidi handler that answers with one 1 KiB message and then reads the request to its end
	// (it terminates as soon as the client closes its request side)
	mux.Handle("/verif.Svc/BigThenDrain", connect.NewBidiStreamHandler("/verif.Svc/BigThenDrain", func(ctx context.Context, s *connect.BidiStream[h.Raw, h.Raw]) error {
		o := e.get(s.RequestHeader().Get("X-Call"))
		o.mu.Lock()
		o.Started = true
		o.mu.Unlock()
		defer close(o.returned)
		big := bigMsg(1024)
		if s.RequestHeader().Get("X-Incompressible") != "" {
			// bytes gzip cannot shrink: the envelope itself is beyond the peer's limit
			x := uint32(2463534242)
			for i := range big.B {
				x ^= x << 13
				x ^= x >> 17
				x ^= x << 5
				big.B[i] = byte(x >> 11)
			}
		}
		if err := s.Send(big); err != nil {
			return err
		}
		deadline := time.After(handlerCtxWait)
		done := make(chan struct{})
		go func() {
			defer close(done)
			for {
				if _, err := s.Receive(); err != nil {
					return
				}
			}
		}()
		select {
		case <-done:
		case <-deadline:
		}
		return nil
	}, hopts...))
	mux.Handle("/verif.Svc/Bidi", connect.NewBidiStreamHandler("/verif.Svc/Bidi", func(ctx context.Context, s *connect.BidiStream[h.Raw, h.Raw]) error {
		p := parseProg(s.RequestHeader().Get("X-Prog"))
		o := e.get(s.RequestHeader().Get("X-Call"))
		o.mu.Lock()
		o.Started = true
		o.mu.Unlock()
		defer close(o.returned)
		recvOne := func() bool {
			_, err := s.Receive()
			o.mu.Lock()
			defer o.mu.Unlock()
			if err != nil {
				if errors.Is(err, io.EOF) {
					o.SawEOF = true
				} else {
					o.RecvErr = err.Error()
				}
				return false
			}
			o.Received++
			return true
		}
		for i := 0; p.Recv < 0 || i < p.Recv; i++ {
			if !recvOne() {
				break
			}
		}
		if p.Slow > 0 {
			time.Sleep(time.Duration(p.Slow) * time.Millisecond)
		}
		for i := 0; i < p.Send; i++ {
			if err := s.Send(reply(i)); err != nil {
				o.mu.Lock()
				o.SendErr = err.Error()
				o.mu.Unlock()
				break
			}
		}
		if p.Drain {
			for recvOne() {
			}
		}
		return e.finishProg(ctx, p, o)
	}, hopts...))
	mux.Handle("/verif.Svc/Client", connect.NewClientStreamHandler("/verif.Svc/Client", func(ctx context.Context, s *connect.ClientStream[h.Raw]) (*connect.Response[h.Raw], error) {
		p := parseProg(s.RequestHeader().Get("X-Prog"))
		o := e.get(s.RequestHeader().Get("X-Call"))
		o.mu.Lock()
		o.Started = true
		o.mu.Unlock()
		defer close(o.returned)
		for i := 0; p.Recv < 0 || i < p.Recv; i++ {
			if !s.Receive() {
				o.mu.Lock()
				if s.Err() == nil {
					o.SawEOF = true
				} else {
					o.RecvErr = s.Err().Error()
				}
				o.mu.Unlock()
				break
			}
			o.mu.Lock()
			o.Received++
			o.mu.Unlock()
		}
		if p.Slow > 0 {
			time.Sleep(time.Duration(p.Slow) * time.Millisecond)
		}
		if err := e.finishProg(ctx, p, o); err != nil {
			return nil, err
		}
		return connect.NewResponse(reply(0)), nil
	}, hopts...))
	mux.Handle("/verif.Svc/Server", connect.NewServerStreamHandler("/verif.Svc/Server", func(ctx context.Context, req *connect.Request[h.Raw], s *connect.ServerStream[h.Raw]) error {
		p := parseProg(req.Header().Get("X-Prog"))
		o := e.get(req.Header().Get("X-Call"))
		o.mu.Lock()
		o.Started = true
		o.mu.Unlock()
		defer close(o.returned)
		o.mu.Lock()
		o.Received, o.SawEOF = 1, true
		o.mu.Unlock()
		if p.Slow > 0 {
			time.Sleep(time.Duration(p.Slow) * time.Millisecond)
		}
		for i := 0; i < p.Send; i++ {
			if err := s.Send(reply(i)); err != nil {
				o.mu.Lock()
				o.SendErr = err.Error()
				o.mu.Unlock()
				break
			}
		}
		return e.finishProg(ctx, p, o)
	}, hopts...))
	mux.Handle("/verif.Svc/Unary", connect.NewUnaryHandler("/verif.Svc/Unary", func(ctx context.Context, req *connect.Request[h.Raw]) (*connect.Response[h.Raw], error) {
		p := parseProg(req.Header().Get("X-Prog"))
		o := e.get(req.Header().Get("X-Call"))
		o.mu.Lock()
		o.Started = true
		o.mu.Unlock()
		defer close(o.returned)
		o.mu.Lock()
		o.Received, o.SawEOF = 1, true
		o.mu.Unlock()
		if p.Slow > 0 {
			time.Sleep(time.Duration(p.Slow) * time.Millisecond)
		}
		if err := e.finishProg(ctx, p, o); err != nil {
			return nil, err
		}
		return connect.NewResponse(reply(0)), nil
	}, hopts...))
	// a peer that sends its response headers at once (grpc-go's SendHeader, a proxy,
	// a handler that flushes) and then waits for the end of the request's context
	mux.HandleFunc("/verif.Svc/Early", func(w http.ResponseWriter, req *http.Request) {
		o := e.get(req.Header.Get("X-Call"))
		o.mu.Lock()
		o.Started = true
		o.mu.Unlock()
		defer close(o.returned)
		w.Header().Set("Content-Type", req.Header.Get("Content-Type"))
		w.WriteHeader(200)
		if f, ok := w.(http.Flusher); ok {
			f.Flush()
		}
		if req.Header.Get("X-Read") == "1" {
			go func() { _, _ = io.Copy(io.Discard, req.Body) }()
		}
		select {
		case <-req.Context().Done():
			o.mu.Lock()
			o.CtxDone, o.CtxErr = true, req.Context().Err().Error()
			o.mu.Unlock()
		case <-time.After(handlerCtxWait):
		}
	})
	// a peer that answers a unary gRPC / gRPC-Web call with its response message at once and
	// then takes its time before ending the response (slow trailers)
	mux.HandleFunc("/verif.Svc/StallAfterMessage", func(w http.ResponseWriter, req *http.Request) {
		o := e.get(req.Header.Get("X-Call"))
		o.mu.Lock()
		o.Started = true
		o.mu.Unlock()
		defer close(o.returned)
		_, _ = io.Copy(io.Discard, req.Body)
		w.Header().Set("Content-Type", req.Header.Get("Content-Type"))
		w.WriteHeader(200)
		_, _ = w.Write(h.Frame(0, []byte("ok")))
		if k, _ := strconv.Atoi(req.Header.Get("X-Extra-Bytes")); k > 0 {
			// ... and the first k bytes of the next envelope (its 5-byte prefix, then payload)
			_, _ = w.Write(h.Frame(0, []byte("second message"))[:k])
		}
		if f, ok := w.(http.Flusher); ok {
			f.Flush()
		}
		select {
		case <-req.Context().Done():
			o.mu.Lock()
			o.CtxDone, o.CtxErr = true, req.Context().Err().Error()
			o.mu.Unlock()
		case <-time.After(handlerCtxWait):
		}
	})
	// a peer that answers a unary Connect call with the first 64 bytes of a long response
	// message and then takes its time
	mux.HandleFunc("/verif.Svc/StallInBody", func(w http.ResponseWriter, req *http.Request) {
		o := e.get(req.Header.Get("X-Call"))
		o.mu.Lock()
		o.Started = true
		o.mu.Unlock()
		defer close(o.returned)
		_, _ = io.Copy(io.Discard, req.Body)
		w.Header().Set("Content-Type", req.Header.Get("Content-Type"))
		w.WriteHeader(200)
		_, _ = w.Write(bytes.Repeat([]byte("z"), 64))
		if f, ok := w.(http.Flusher); ok {
			f.Flush()
		}
		select {
		case <-req.Context().Done():
			o.mu.Lock()
			o.CtxDone, o.CtxErr = true, req.Context().Err().Error()
			o.mu.Unlock()
		case <-time.After(handlerCtxWait):
		}
	})
	// a peer (or a proxy) that answers a unary Connect call with 503 and the beginning of a JSON
	// error body, and then takes its time
	mux.HandleFunc("/verif.Svc/StallInErrorBody", func(w http.ResponseWriter, req *http.Request) {
		o := e.get(req.Header.Get("X-Call"))
		o.mu.Lock()
		o.Started = true
		o.mu.Unlock()
		defer close(o.returned)
		_, _ = io.Copy(io.Discard, req.Body)
		w.Header().Set("Content-Type", "application/json")
		w.WriteHeader(503)
		_, _ = w.Write([]byte(`{"code":"unavailable","message":"try ag`))
		if f, ok := w.(http.Flusher); ok {
			f.Flush()
		}
		select {
		case <-req.Context().Done():
			o.mu.Lock()
			o.CtxDone, o.CtxErr = true, req.Context().Err().Error()
			o.mu.Unlock()
		case <-time.After(handlerCtxWait):
		}
	})
	// a peer that answers 101 Switching Protocols (nobody asked for an upgrade) and keeps the
	// connection open: net/http hands the connection itself to the client as the response body
	mux.HandleFunc("/verif.Svc/Switch101", func(w http.ResponseWriter, req *http.Request) {
		hj, ok := w.(http.Hijacker)
		if !ok {
			w.WriteHeader(500)
			return
		}
		conn, buf, err := hj.Hijack()
		if err != nil {
			return
		}
		_, _ = buf.WriteString("HTTP/1.1 101 Switching Protocols\r\nConnection: Upgrade\r\nUpgrade: verif/1\r\n\r\n")
		_ = buf.Flush()
		time.Sleep(liveWatchdog + 2*time.Second)
		_ = conn.Close()
	})
	e.srv1 = httptest.NewUnstartedServer(mux)
	e.srv1.Start()
	e.srv2 = httptest.NewUnstartedServer(mux)
	e.srv2.EnableHTTP2 = true
	e.srv2.StartTLS()
	return e
}

func (e *liveEnv) close() {
	e.srv1.Close()
	e.srv2.Close()
}

// countingClient counts Close calls on the response bodies it hands out.
type countingClient struct {
	inner  connect.HTTPClient
	bodies atomic.Int32
	closes atomic.Int32
}

type countedBody struct {
	io.ReadCloser
	c    *countingClient
	once sync.Once
}

func (b *countedBody) Close() error {
	b.once.Do(func() { b.c.closes.Add(1) })
	return b.ReadCloser.Close()
}

func (c *countingClient) Do(req *http.Request) (*http.Response, error) {
	res, err := c.inner.Do(req)
	if err == nil && res != nil && res.Body != nil {
		c.bodies.Add(1)
		res.Body = &countedBody{ReadCloser: res.Body, c: c}
	}
	return res, err
}

const liveWatchdog = 4 * time.Second

type liveCall struct {
	r     *h.Run
	mode  string
	fam   string
	kind  string // unary | client | server | bidi
	proto string
	h2    bool
	prog  hprog
	log   []string
	hung  bool
	cc    *countingClient
	id    string
	obs   *hobs
}

func (c *liveCall) input() map[string]any {
	return map[string]any{"kind": c.kind, "protocol": c.proto, "http2": c.h2, "handler": fmt.Sprintf("%+v", c.prog), "operations": c.log}
}

func (c *liveCall) step(what string, f func() error) (error, bool) {
	if c.hung {
		return nil, false
	}
	ch := make(chan error, 1)
	go func() { ch <- f() }()
	select {
	case err := <-ch:
		c.log = append(c.log, what+" -> "+liveCls(err))
		return err, true
	case <-time.After(liveWatchdog):
		c.hung = true
		c.log = append(c.log, what+" -> DID NOT RETURN")
		c.r.Fail(h.Failure{Key: "hang/" + strings.Fields(what)[0], Family: c.fam, What: what + " did not return within " + liveWatchdog.String(), Input: c.input()})
		return nil, false
	}
}

func liveCls(err error) string {
	if err == nil {
		return "ok"
	}
	s := connect.CodeOf(err).String()
	if errors.Is(err, io.EOF) {
		s = "eof"
	}
	return s
}

func bigMsg(n int) *h.Raw {
	b := make([]byte, n)
	for i := range b {
		b[i] = byte('a' + i%26)
	}
	return &h.Raw{B: b}
}

func liveClientOpts(proto string) []connect.ClientOption {
	opts := []connect.ClientOption{connect.WithCodec(h.ToyCodec{})}
	switch proto {
	case "grpc":
		opts = append(opts, connect.WithGRPC())
	case "grpcweb":
		opts = append(opts, connect.WithGRPCWeb())
	}
	return opts
}

func (e *liveEnv) newCall(r *h.Run, mode, fam, kind, proto string, h2 bool, prog hprog) (*liveCall, string, *countingClient) {
	srv := e.srv1
	if h2 {
		srv = e.srv2
	}
	c := &liveCall{r: r, mode: mode, fam: fam, kind: kind, proto: proto, h2: h2, prog: prog}
	c.id = fmt.Sprint(e.seq.Add(1))
	c.obs = e.get(c.id)
	c.cc = &countingClient{inner: srv.Client()}
	path := map[string]string{"unary": "/verif.Svc/Unary", "client": "/verif.Svc/Client", "server": "/verif.Svc/Server", "bidi": "/verif.Svc/Bidi"}[kind]
	return c, srv.URL + path, c.cc
}

// afterCall checks what must hold once the client has finished the call.
func (c *liveCall) afterCall(closedBoth bool) {
	if c.hung {
		return
	}
	if c.mode != "C14" {
		return
	}
	if gs := waitNoLibraryGoroutines(2 * time.Second); len(gs) > 0 {
		c.r.Fail(h.Failure{Key: "leak/goroutine", Family: c.fam, What: "a goroutine of the library remains after the call was finished", Input: c.input(), Actual: gs})
	}
	if closedBoth && c.cc.bodies.Load() > 0 && c.cc.closes.Load() != c.cc.bodies.Load() {
		c.r.Fail(h.Failure{Key: "leak/body-not-closed", Family: c.fam, What: fmt.Sprintf("%d response bodies handed out, %d closed", c.cc.bodies.Load(), c.cc.closes.Load()), Input: c.input()})
	}
}

// handlerReturned waits for the handler to finish.
func (c *liveCall) handlerReturned(d time.Duration) bool {
	select {
	case <-c.obs.returned:
		return true
	case <-time.After(d):
		return false
	}
}

// expectOutcome is the class the client must see for the handler's return value.
func (p hprog) outcome() string {
	switch {
	case p.Own == 1:
		return connect.CodeCanceled.String()
	case p.Own == 2:
		return connect.CodeDeadlineExceeded.String()
	case p.Ret != 0:
		return connect.Code(p.Ret).String()
	}
	return "eof"
}

// liveStream runs a streaming call: sends nSend messages, closes the request,
// receives until an error, then sends again (which must fail with EOF), then
// closes the response.
func (e *liveEnv) liveStream(r *h.Run, rng *h.Rng, mode, fam, kind, proto string, h2 bool, prog hprog, nSend int, extraBig bool) {
	c, url, hc := e.newCall(r, mode, fam, kind, proto, h2, prog)
	ctx, cancel := context.WithCancel(context.Background())
	defer cancel()
	defer func() {
		if c.hung {
			cancel()
		}
	}()
	client := connect.NewClient[h.Raw, h.Raw](hc, url, liveClientOpts(proto)...)
	var send func(*h.Raw) error
	var closeReq, closeResp func() error
	var recv func() error
	switch kind {
	case "bidi":
		st := client.CallBidiStream(ctx)
		st.RequestHeader().Set("X-Prog", prog.String())
		st.RequestHeader().Set("X-Call", c.id)
		send, closeReq, closeResp = st.Send, st.CloseRequest, st.CloseResponse
		recv = func() error { _, err := st.Receive(); return err }
	case "client":
		st := client.CallClientStream(ctx)
		st.RequestHeader().Set("X-Prog", prog.String())
		st.RequestHeader().Set("X-Call", c.id)
		send = st.Send
		// CloseAndReceive closes both sides
		done := false
		var res error
		closeReq = func() error { return nil }
		recv = func() error {
			if !done {
				_, res = st.CloseAndReceive()
				done = true
				if res == nil {
					return nil
				}
			} else if res == nil {
				return io.EOF
			}
			return res
		}
		closeResp = func() error { return nil }
	case "server":
		req := connect.NewRequest(bigMsg(8))
		req.Header().Set("X-Prog", prog.String())
		req.Header().Set("X-Call", c.id)
		var st *connect.ServerStreamForClient[h.Raw]
		err, ok := c.step("CallServerStream", func() error { var err error; st, err = client.CallServerStream(ctx, req); return err })
		if !ok {
			return
		}
		if err != nil {
			want := prog.outcome()
			if mode == "C14" && liveCls(err) != want && !(want == "eof") {
				c.r.Fail(h.Failure{Key: "outcome/server-stream-call", Family: fam, What: "CallServerStream failed with " + liveCls(err) + ", the handler's outcome is " + want, Input: c.input()})
			}
			c.afterCall(false)
			return
		}
		send = func(*h.Raw) error { return io.EOF }
		nSend = 0
		closeReq = func() error { return nil }
		recv = func() error {
			if st.Receive() {
				return nil
			}
			if st.Err() == nil {
				return io.EOF
			}
			return st.Err()
		}
		closeResp = st.Close
	}
	r.Eval(fam, fmt.Sprintf("%s/%s/%v/%s/%d/%v", kind, proto, h2, prog, nSend, extraBig))
	sendFailed := false
	for i := 0; i < nSend; i++ {
		err, ok := c.step("Send", func() error { return send(bigMsg(16 + rng.Intn(64))) })
		if !ok {
			return
		}
		if err != nil {
			sendFailed = true
			if mode == "C14" && !errors.Is(err, io.EOF) {
				c.r.Fail(h.Failure{Key: "send/failure-not-eof", Family: fam, What: "a Send on a live context failed with " + liveCls(err) + " rather than the error wrapping io.EOF", Input: c.input()})
			}
			break
		}
	}
	if extraBig && kind != "server" && !sendFailed {
		// more than fits in transport buffers: if the handler has left, this must fail, never block
		for i := 0; i < 24; i++ {
			err, ok := c.step("Send(256KiB)", func() error { return send(bigMsg(256 << 10)) })
			if !ok {
				return
			}
			if err != nil {
				if mode == "C14" && !errors.Is(err, io.EOF) {
					c.r.Fail(h.Failure{Key: "send/failure-not-eof", Family: fam, What: "a Send on a live context failed with " + liveCls(err) + " rather than the error wrapping io.EOF", Input: c.input()})
				}
				break
			}
		}
	}
	if _, ok := c.step("CloseRequest", closeReq); !ok {
		return
	}
	// the handler sees the end of the request once the client closed its side
	handlerReads := prog.Recv < 0 || prog.Drain
	// receive until the stream ends
	var last error
	n := 0
	for {
		err, ok := c.step("Receive", recv)
		if !ok {
			return
		}
		if err != nil {
			last = err
			break
		}
		n++
		if n > prog.Send+2 {
			c.r.Fail(h.Failure{Key: "receive/too-many", Family: fam, What: "more messages received than the handler sent", Input: c.input()})
			break
		}
	}
	if mode == "C14" {
		want := prog.outcome()
		if last != nil && liveCls(last) != want {
			key := "outcome/receive"
			if !h2 && extraBig && kind != "server" {
				// HTTP/1.1: the handler returned with a large part of the request unread
				key = "outcome/http1/early-exit-unread-request"
			}
			c.r.Fail(h.Failure{Key: key, Family: fam, What: "Receive reported " + liveCls(last) + ", the handler's outcome is " + want, Input: c.input(), Expected: want, Actual: liveCls(last)})
		}
		if handlerReads && kind != "server" && c.handlerReturned(2*time.Second) {
			c.obs.mu.Lock()
			saw := c.obs.SawEOF
			rerr := c.obs.RecvErr
			c.obs.mu.Unlock()
			if !saw && !sendFailed {
				c.r.Fail(h.Failure{Key: "request/end-not-seen", Family: fam, What: "the handler read the request to its end but did not see a clean end-of-request (it saw: " + rerr + ")", Input: c.input()})
			}
		}
		// the handler has finished: Sends fail with EOF, Receive keeps failing
		if kind == "bidi" {
			for i := 0; i < 2; i++ {
				err, ok := c.step("Send(after the handler finished)", func() error { return send(bigMsg(64 << 10)) })
				if !ok {
					return
				}
				if !errors.Is(err, io.EOF) {
					c.r.Fail(h.Failure{Key: "send/after-receive-error-not-eof", Family: fam, What: "after Receive reported the handler's outcome a Send returned " + liveCls(err) + " instead of the error wrapping io.EOF", Input: c.input()})
				}
			}
		}
		err, ok := c.step("Receive(again)", recv)
		if !ok {
			return
		}
		if err == nil {
			c.r.Fail(h.Failure{Key: "receive/error-not-sticky", Family: fam, What: "after Receive reported " + liveCls(last) + " a later Receive succeeded", Input: c.input()})
		}
	}
	if _, ok := c.step("CloseResponse", closeResp); !ok {
		return
	}
	r.Sample(fam, c.input())
	c.afterCall(true)
}

func (e *liveEnv) liveUnary(r *h.Run, mode, fam, proto string, h2 bool, prog hprog, extra ...connect.ClientOption) (result error, returned bool) {
	c, url, hc := e.newCall(r, mode, fam, "unary", proto, h2, prog)
	client := connect.NewClient[h.Raw, h.Raw](hc, url, append(liveClientOpts(proto), extra...)...)
	if len(extra) > 0 {
		c.log = append(c.log, "[the client limits response messages to 16 bytes]")
	}
	req := connect.NewRequest(bigMsg(32))
	if prog.Slow == -1 {
		// a request message the codec refuses to marshal: Send fails locally, before anything is
		// written; the call must still close both sides (the request is made, and answered)
		prog.Slow = 0
		req = connect.NewRequest(&h.Raw{B: []byte{0xEE, 0xEE, 0xEE}})
		c.log = append(c.log, "[the request message cannot be marshalled]")
	}
	req.Header().Set("X-Prog", prog.String())
	req.Header().Set("X-Call", c.id)
	r.Eval(fam, fmt.Sprintf("unary/%s/%v/%s/%d", proto, h2, prog, len(req.Msg.B)))
	err, ok := c.step("CallUnary", func() error { _, err := client.CallUnary(context.Background(), req); return err })
	if !ok {
		return nil, false
	}
	result, returned = err, true
	if len(req.Msg.B) == 3 && req.Msg.B[0] == 0xEE {
		if err == nil {
			c.r.Fail(h.Failure{Key: "outcome/unary", Family: fam, What: "a call whose request could not be marshalled succeeded", Input: c.input()})
		}
		r.Sample(fam, c.input())
		c.afterCall(true)
		return
	}
	want := prog.outcome()
	got := liveCls(err)
	if want == "eof" {
		want = "ok"
	}
	if got != want {
		key := "outcome/unary"
		if prog.Own != 0 {
			key = "handler-ctx-error/unary"
		}
		if (mode == "C14" && prog.Own == 0) || (mode == "C15" && prog.Own != 0) {
			c.r.Fail(h.Failure{Key: key, Family: fam, What: "CallUnary returned " + got + ", the handler's outcome is " + want, Input: c.input(), Expected: want, Actual: got})
		}
	}
	r.Sample(fam, c.input())
	c.afterCall(true)
	return
}

// ---------------------------------------------------------------------------
// C15 live: the context ends at a chosen instant of a live call.
// ---------------------------------------------------------------------------

// liveCancel: instant is one of
//
//	before        the context has ended before the call starts
//	between       after the first Send and Receive
//	blocked-send  while a Send is blocked (the handler does not read)
//	waiting       while Receive waits for the response headers
//	blocked-recv  while Receive waits for the next message
func (e *liveEnv) liveCancel(r *h.Run, rng *h.Rng, fam, kind, proto string, h2 bool, instant string, deadline bool) {
	prog := hprog{WaitCtx: true}
	switch instant {
	case "between", "blocked-recv":
		prog.Recv, prog.Send = 1, 1
		if kind == "server" {
			prog.Recv = 0
		}
	case "blocked-send":
		prog.Recv = 0
	case "waiting":
		prog.Recv = 0
	}
	c, url, hc := e.newCall(r, "C15", fam, kind, proto, h2, prog)
	client := connect.NewClient[h.Raw, h.Raw](hc, url, liveClientOpts(proto)...)
	want := connect.CodeCanceled.String()
	var ctx context.Context
	var end func()
	if deadline {
		want = connect.CodeDeadlineExceeded.String()
		if instant == "before" {
			c2, cancel := context.WithDeadline(context.Background(), time.Now().Add(-time.Second))
			ctx, end = c2, func() {}
			defer cancel()
		} else {
			// the deadline passes ~40ms after the instant is reached: set later
			ctx = nil
		}
	}
	r.Eval(fam, fmt.Sprintf("%s/%s/%v/%s/%v", kind, proto, h2, instant, deadline))
	var cancel context.CancelFunc
	// half of the contexts are ended WITH A CAUSE (context.WithCancelCause / WithTimeoutCause):
	// Err() is still Canceled / DeadlineExceeded, but transports may report the cause instead
	withCause := rng.Bool()
	// the cause itself may look like something else: it may wrap the OTHER context error (an
	// upstream's timeout passed on as the reason of a cancellation), be a coded error, or wrap io.EOF
	causeKind := rng.Intn(4)
	causeFor := func(other error) error {
		switch causeKind {
		case 1:
			return fmt.Errorf("upstream: %w", other)
		case 2:
			return connect.NewError(connect.CodeAborted, errors.New("superseded"))
		case 3:
			return fmt.Errorf("peer went away: %w", io.EOF)
		}
		return errors.New("caller gave up / budget spent")
	}
	mk := func(d time.Duration) {
		if deadline {
			if ctx == nil {
				if withCause {
					ctx, cancel = context.WithTimeoutCause(context.Background(), d, causeFor(context.Canceled))
				} else {
					ctx, cancel = context.WithTimeout(context.Background(), d)
				}
				end = func() { <-ctx.Done() }
			}
		} else if withCause {
			c2, cancelCause := context.WithCancelCause(context.Background())
			ctx, cancel = c2, func() { cancelCause(causeFor(context.DeadlineExceeded)) }
			end = cancel
		} else {
			ctx, cancel = context.WithCancel(context.Background())
			end = cancel
		}
	}
	if withCause {
		c.log = append(c.log, "[the context is ended with a cause: "+[]string{"a plain error", "an error wrapping the OTHER context error", "a *connect.Error coded aborted", "an error wrapping io.EOF"}[causeKind]+"]")
	}
	// time from creating the context to the instant: operations before the
	// instant take well under 150ms
	mk(150 * time.Millisecond)
	if cancel != nil {
		defer cancel()
	}
	if instant == "before" && !deadline {
		end()
	}
	failing := func(what string, err error, allowEOF bool) {
		got := liveCls(err)
		if err == nil {
			c.r.Fail(h.Failure{Key: "cancel/success-after-end/" + strings.Fields(what)[0], Family: fam, What: what + " succeeded after the context had ended", Input: c.input(), Expected: want, Actual: got})
			return
		}
		if got != want && !(allowEOF && got == "eof") {
			c.r.Fail(h.Failure{Key: "cancel/code/" + strings.Fields(what)[0], Family: fam, What: what + " failed with " + got + " after the context had ended (" + want + ")", Input: c.input(), Expected: want, Actual: got})
		}
	}
	handlerCtx := func() {
		// the handler's context must end as well (the handler waits for it)
		if !c.handlerReturned(handlerCtxWait + time.Second) {
			c.obs.mu.Lock()
			started := c.obs.Started
			c.obs.mu.Unlock()
			if !started {
				// the context ended before the request had reached user code: there is no
				// handler whose context could end
				c.r.Note("live_cancel: the request of one %s %s call never reached its handler before the context ended", kind, proto)
				return
			}
			c.r.Fail(h.Failure{Key: "handler-ctx/handler-did-not-return", Family: fam, What: "the handler did not return", Input: c.input()})
			return
		}
		c.obs.mu.Lock()
		done := c.obs.CtxDone
		c.obs.mu.Unlock()
		if !done {
			key := "handler-ctx/not-cancelled"
			if !h2 && !(kind == "unary" && proto == "connect") && !(kind == "server" && prog.Send > 0) {
				// HTTP/1.1: net/http's server watches the connection only once the
				// request body has been read to its end
				key = "handler-ctx/http1/request-not-read-to-end"
			}
			c.r.Fail(h.Failure{Key: key, Family: fam, What: fmt.Sprintf("the handler's context did not end within %v of the client's", handlerCtxWait), Input: c.input()})
		}
	}
	reached := false // did the request reach the handler?
	switch kind {
	case "unary":
		req := connect.NewRequest(bigMsg(32))
		req.Header().Set("X-Prog", prog.String())
		req.Header().Set("X-Call", c.id)
		if instant != "before" {
			if !deadline {
				go func() { time.Sleep(60 * time.Millisecond); end() }()
			}
			reached = true
		}
		err, ok := c.step("CallUnary", func() error { _, err := client.CallUnary(ctx, req); return err })
		if !ok {
			return
		}
		failing("CallUnary", err, false)
	case "server":
		req := connect.NewRequest(bigMsg(32))
		req.Header().Set("X-Prog", prog.String())
		req.Header().Set("X-Call", c.id)
		if instant == "waiting" {
			if !deadline {
				go func() { time.Sleep(60 * time.Millisecond); end() }()
			}
			reached = true
		}
		var st *connect.ServerStreamForClient[h.Raw]
		err, ok := c.step("CallServerStream", func() error { var err error; st, err = client.CallServerStream(ctx, req); return err })
		if !ok {
			return
		}
		if instant == "before" || instant == "waiting" {
			if err == nil {
				// the error may surface at the first Receive
				_, ok := c.step("Receive", func() error {
					if st.Receive() {
						return nil
					}
					return st.Err()
				})
				if !ok {
					return
				}
				failing("Receive", st.Err(), false)
				_, _ = c.step("Close", st.Close)
			} else {
				failing("CallServerStream", err, false)
			}
			break
		}
		reached = true
		if err != nil {
			c.r.Fail(h.Failure{Key: "live/unexpected", Family: fam, What: "CallServerStream failed on a live context: " + err.Error(), Input: c.input()})
			return
		}
		recv := func() error {
			if st.Receive() {
				return nil
			}
			if st.Err() == nil {
				return io.EOF
			}
			return st.Err()
		}
		if _, ok := c.step("Receive", recv); !ok {
			return
		}
		if instant == "between" {
			end()
		} else if !deadline {
			go func() { time.Sleep(40 * time.Millisecond); end() }()
		}
		err, ok = c.step("Receive", recv)
		if !ok {
			return
		}
		failing("Receive", err, false)
		err, ok = c.step("Receive(again)", recv)
		if !ok {
			return
		}
		failing("Receive(again)", err, false)
		if err, ok := c.step("Close", st.Close); ok && err != nil {
			failing("Close", err, false)
		}
	case "bidi", "client":
		var send func(*h.Raw) error
		var recv, closeReq, closeResp func() error
		var hdr http.Header
		if kind == "bidi" {
			st := client.CallBidiStream(ctx)
			hdr = st.RequestHeader()
			send, closeReq, closeResp = st.Send, st.CloseRequest, st.CloseResponse
			recv = func() error { _, err := st.Receive(); return err }
		} else {
			st := client.CallClientStream(ctx)
			hdr = st.RequestHeader()
			send = st.Send
			closeReq = func() error { return nil }
			closeResp = func() error { return nil }
			recv = func() error { _, err := st.CloseAndReceive(); return err }
		}
		hdr.Set("X-Prog", prog.String())
		hdr.Set("X-Call", c.id)
		switch instant {
		case "before":
			err, ok := c.step("Send", func() error { return send(bigMsg(16)) })
			if !ok {
				return
			}
			failing("Send", err, true)
			err, ok = c.step("Receive", recv)
			if !ok {
				return
			}
			failing("Receive", err, false)
		case "between":
			reached = true
			if err, ok := c.step("Send", func() error { return send(bigMsg(16)) }); !ok {
				return
			} else if err != nil {
				c.r.Fail(h.Failure{Key: "live/unexpected", Family: fam, What: "Send failed on a live context: " + err.Error(), Input: c.input()})
				return
			}
			if kind == "bidi" {
				if _, ok := c.step("Receive", recv); !ok {
					return
				}
			}
			end()
			err, ok := c.step("Send", func() error { return send(bigMsg(16)) })
			if !ok {
				return
			}
			failing("Send", err, true)
			err, ok = c.step("Receive", recv)
			if !ok {
				return
			}
			failing("Receive", err, false)
			if kind == "bidi" {
				err, ok = c.step("Receive(again)", recv)
				if !ok {
					return
				}
				failing("Receive(again)", err, false)
			}
		case "blocked-send":
			reached = true
			if !deadline {
				go func() { time.Sleep(80 * time.Millisecond); end() }()
			}
			var err error
			ok := true
			sent := 0
			for i := 0; i < 64 && err == nil && ok; i++ {
				err, ok = c.step("Send(256KiB)", func() error { return send(bigMsg(256 << 10)) })
				sent++
			}
			if !ok {
				return
			}
			if err == nil {
				r.Note("live_cancel: %d x 256KiB did not block the sender (%s %s h2=%v)", sent, kind, proto, h2)
				<-ctx.Done()
				err, ok = c.step("Send", func() error { return send(bigMsg(16)) })
				if !ok {
					return
				}
			}
			failing("Send", err, true)
			err, ok = c.step("Receive", recv)
			if !ok {
				return
			}
			failing("Receive", err, false)
		case "waiting", "blocked-recv":
			reached = true
			if err, ok := c.step("Send", func() error { return send(bigMsg(16)) }); !ok {
				return
			} else if err != nil {
				c.r.Fail(h.Failure{Key: "live/unexpected", Family: fam, What: "Send failed on a live context: " + err.Error(), Input: c.input()})
				return
			}
			if instant == "blocked-recv" && kind == "bidi" {
				if _, ok := c.step("Receive", recv); !ok {
					return
				}
			}
			if !deadline {
				go func() { time.Sleep(40 * time.Millisecond); end() }()
			}
			err, ok := c.step("Receive(blocked)", recv)
			if !ok {
				handlerCtx()
				return
			}
			failing("Receive(blocked)", err, false)
			if deadline {
				// the handler's deadline (derived from the announced timeout, rounded down) may pass
				// a moment before the client's own: what follows is judged as "after the context
				// ended" only once it HAS ended
				select {
				case <-ctx.Done():
				case <-time.After(2 * time.Second):
				}
			}
			if kind == "bidi" {
				err, ok = c.step("Receive(again)", recv)
				if !ok {
					return
				}
				failing("Receive(again)", err, false)
				err, ok = c.step("Send", func() error { return send(bigMsg(16)) })
				if !ok {
					return
				}
				failing("Send", err, true)
			}
		}
		if _, ok := c.step("CloseRequest", closeReq); !ok {
			return
		}
		if err, ok := c.step("CloseResponse", closeResp); ok && err != nil {
			failing("CloseResponse", err, false)
		}
	}
	if reached {
		handlerCtx()
	}
	r.Sample(fam, c.input())
}

func liveFamily(r *h.Run, rng *h.Rng, fam string, cancelMode bool) {
	e := newLiveEnv()
	defer e.close()
	defer connect.VerifSetYield(nil)
	protos := []string{"connect", "grpc", "grpcweb"}
	yc := newYieldCtl()
	setDelays := func(points []string) {
		yc.mu.Lock()
		yc.delay = map[string]time.Duration{}
		for _, p := range points {
			yc.delay[p] = time.Duration(500+rng.Intn(1500)) * time.Microsecond
		}
		yc.mu.Unlock()
	}
	connect.VerifSetYield(yc.hook)
	if !cancelMode {
		kinds := func(h2 bool) []string {
			if h2 {
				return []string{"unary", "client", "server", "bidi"}
			}
			return []string{"unary", "client", "server"}
		}
		one := func(delays []string) {
			setDelays(delays)
			h2 := rng.Bool()
			ks := kinds(h2)
			kind := ks[rng.Intn(len(ks))]
			proto := protos[rng.Intn(3)]
			prog := hprog{}
			if rng.Chance(45) {
				prog.Ret = 1 + rng.Intn(16)
			}
			switch kind {
			case "unary":
				if rng.Chance(25) {
					prog.Slow = -1 // marks: the request message cannot be marshalled
				}
				e.liveUnary(r, "C14", fam, proto, h2, prog)
				return
			case "client":
				prog.Recv = []int{-1, -1, 0, 1, 2}[rng.Intn(5)]
			case "server":
				prog.Send = rng.Intn(4)
			case "bidi":
				prog.Recv = []int{-1, 0, 1, 2}[rng.Intn(4)]
				prog.Send = rng.Intn(4)
				prog.Drain = prog.Recv >= 0 && rng.Chance(40)
			}
			nSend := rng.Intn(5)
			// an early handler exit with more sends than fit in the transport's buffers
			extraBig := prog.Recv >= 0 && !prog.Drain && rng.Chance(50)
			e.liveStream(r, rng, "C14", fam, kind, proto, h2, prog, nSend, extraBig)
		}
		n := r.N(40, 300)
		for i := 0; i < n; i++ {
			one(nil)
		}
		setDelays(nil)
		for _, proto := range protos {
			e.liveLocalFailure(r, fam, proto, true)
			e.liveLocalFailure(r, fam, proto, false)
		}
		for pi, proto := range protos {
			e.liveSwitchingProtocols(r, fam, []string{"unary", "server", "client"}[pi%3], proto)
			if r.Thorough() {
				e.liveSwitchingProtocols(r, fam, []string{"server", "client", "unary"}[pi%3], proto)
				e.liveSwitchingProtocols(r, fam, []string{"client", "unary", "server"}[pi%3], proto)
			}
		}
		for pi, proto := range protos {
			e.liveCloseRequestFails(r, fam, proto, pi%2 == 0)
			if r.Thorough() {
				e.liveCloseRequestFails(r, fam, proto, pi%2 != 0)
			}
		}
		for _, proto := range protos {
			e.liveRejected(r, fam, "bidi", proto, true)
			e.liveRejected(r, fam, "client", proto, rng.Bool())
			e.liveRejected(r, fam, "unary", proto, rng.Bool())
		}
		per := r.N(2, 8)
		for _, p := range dxYieldPoints {
			for i := 0; i < per; i++ {
				one([]string{p})
			}
		}
		if r.Thorough() {
			for i, p := range dxYieldPoints {
				for _, q := range dxYieldPoints[i+1:] {
					one([]string{p, q})
					one([]string{p, q})
				}
			}
		}
		return
	}
	// C15
	type combo struct {
		kind, instant string
	}
	var combos []combo
	for _, k := range []string{"unary", "server", "client", "bidi"} {
		for _, in := range []string{"before", "between", "blocked-send", "waiting", "blocked-recv"} {
			switch {
			case k == "unary" && (in == "between" || in == "blocked-send" || in == "blocked-recv"):
				continue
			case k == "server" && in == "blocked-send":
				continue
			case k == "client" && in == "blocked-recv":
				continue
			}
			combos = append(combos, combo{k, in})
		}
	}
	setDelays(nil)
	for _, cb := range combos {
		for _, proto := range protos {
			for _, h2 := range []bool{false, true} {
				if cb.kind == "bidi" && !h2 {
					continue
				}
				for _, deadline := range []bool{false, true} {
					if !r.Thorough() && rng.Chance(35) {
						continue
					}
					e.liveCancel(r, rng, fam, cb.kind, proto, h2, cb.instant, deadline)
				}
			}
		}
	}
	// response headers already received, request side still open (HTTP/2)
	for _, kind := range []string{"client", "bidi"} {
		for _, proto := range protos {
			for _, blocked := range []bool{false, true} {
				deadline := rng.Bool()
				e.liveEarlyHeaders(r, fam, kind, proto, blocked, deadline)
				if r.Thorough() {
					e.liveEarlyHeaders(r, fam, kind, proto, blocked, !deadline)
				}
			}
		}
	}
	// the response message of a unary call has arrived, its end has not
	for _, proto := range []string{"grpc", "grpcweb", "connect", "connect-error-body"} {
		for _, h2 := range []bool{false, true} {
			if proto == "grpc" && !h2 {
				continue // (trailers need HTTP/2 here)
			}
			e.liveUnaryStall(r, fam, proto, h2, rng.Bool())
			if r.Thorough() {
				e.liveUnaryStall(r, fam, proto, h2, rng.Bool())
			}
		}
	}
	// a server stream: one message has arrived, and 0..8 bytes of the next envelope, when the
	// context ends with Receive blocked
	for pi, proto := range protos {
		for _, h2 := range []bool{false, true} {
			if proto == "grpc" && !h2 {
				continue
			}
			for k := 0; k <= 8; k++ {
				if !r.Thorough() && k > 5 && (k+pi)%2 == 0 {
					continue
				}
				e.liveStallInEnvelope(r, fam, proto, h2, k, (k+pi)%2 == 0)
			}
		}
	}
	// a handler that returns the error of a context of its own
	for _, proto := range protos {
		for _, h2 := range []bool{false, true} {
			for own := 1; own <= 2; own++ {
				prog := hprog{Own: own}
				// (also with a client that limits the size of response MESSAGES: an error is not one)
				if _, ok := e.liveUnary(r, "C15", fam, proto, h2, prog, connect.WithReadMaxBytes(16)); !ok {
					continue
				}
				err, ok := e.liveUnary(r, "C15", fam, proto, h2, prog)
				if !ok {
					continue
				}
				k := "Canceled"
				if own == 2 {
					k = "DeadlineExceeded"
				}
				r.Case(fam, fmt.Sprintf("HandlerCtxError %s %s", k, clsOf(err)), map[string]any{"handler_returns": k, "protocol": proto, "http2": h2, "client_saw": clsOf(err)})
			}
		}
	}
	// delays at the yield points
	per := r.N(1, 3)
	for _, p := range dxYieldPoints {
		for i := 0; i < per; i++ {
			setDelays([]string{p})
			cb := combos[rng.Intn(len(combos))]
			h2 := cb.kind == "bidi" || rng.Bool()
			e.liveCancel(r, rng, fam, cb.kind, protos[rng.Intn(3)], h2, cb.instant, rng.Bool())
		}
	}
}

// alienCodec is a codec no handler of the live servers has: its calls are answered with 415
// before any user code runs.
type alienCodec struct{ h.ToyCodec }

func (alienCodec) Name() string { return "alien" }

// liveRejected: the handler refuses the call on its Content-Type. Whatever the client program,
// every operation returns in bounded time — in particular a Receive made while the request side
// is still open.
func (e *liveEnv) liveRejected(r *h.Run, fam, kind, proto string, h2 bool) {
	e.liveRejectedFor(r, fam, kind, proto, h2, "codec")
	// (not for unary calls: the library clears and rewrites the timeout header of a *Request it
	// sends, so a value set by hand never reaches the wire there)
	if kind == "bidi" || (r.Thorough() && kind != "unary") {
		e.liveRejectedFor(r, fam, kind, proto, h2, "timeout")
	}
}

func (e *liveEnv) liveRejectedFor(r *h.Run, fam, kind, proto string, h2 bool, reason string) {
	c, url, hc := e.newCall(r, "C14", fam, kind, proto, h2, hprog{})
	opts := liveClientOpts(proto)
	badTimeout := func(hd http.Header) {}
	if reason == "codec" {
		opts = append(opts, connect.WithCodec(alienCodec{}))
		c.log = append(c.log, "[the client's codec is one the handler does not have: the call is answered with 415]")
	} else {
		// a timeout header the handler cannot parse (a foreign client, a header set by hand)
		badTimeout = func(hd http.Header) {
			hd.Set(map[bool]string{true: "Connect-Timeout-Ms", false: "Grpc-Timeout"}[proto == "connect"], "soon")
		}
		c.log = append(c.log, "[the request carries a timeout header the handler cannot parse: the call is refused as invalid_argument]")
	}
	client := connect.NewClient[h.Raw, h.Raw](hc, url, opts...)
	r.Eval(fam, fmt.Sprintf("rejected/%s/%s/%s/%v", reason, kind, proto, h2))
	// ended when the program is over: an operation that never returned (already reported by its
	// step) must not keep the handler, and with it the server's shutdown, waiting
	ctx, cancel := context.WithCancel(context.Background())
	defer cancel()
	switch kind {
	case "bidi":
		st := client.CallBidiStream(ctx)
		badTimeout(st.RequestHeader())
		c.step("Send", func() error { return st.Send(bigMsg(16)) })
		err, ok := c.step("Receive (request side still open)", func() error { _, err := st.Receive(); return err })
		if ok && err == nil {
			c.r.Fail(h.Failure{Key: "outcome/rejected-call-succeeded", Family: fam, What: "Receive succeeded on a call the handler refused", Input: c.input()})
		}
		c.step("CloseRequest", func() error { return st.CloseRequest() })
		c.step("CloseResponse", func() error { return st.CloseResponse() })
	case "client":
		st := client.CallClientStream(ctx)
		badTimeout(st.RequestHeader())
		c.step("Send", func() error { return st.Send(bigMsg(16)) })
		err, ok := c.step("CloseAndReceive", func() error { _, err := st.CloseAndReceive(); return err })
		if ok && err == nil {
			c.r.Fail(h.Failure{Key: "outcome/rejected-call-succeeded", Family: fam, What: "CloseAndReceive succeeded on a call the handler refused", Input: c.input()})
		}
	default:
		err, ok := c.step("CallUnary", func() error {
			req := connect.NewRequest(bigMsg(16))
			badTimeout(req.Header())
			_, err := client.CallUnary(ctx, req)
			return err
		})
		if ok && err == nil {
			c.r.Fail(h.Failure{Key: "outcome/rejected-call-succeeded", Family: fam, What: "CallUnary succeeded on a call the handler refused", Input: c.input()})
		}
	}
	r.Sample(fam, c.input())
	c.afterCall(true)
}

// liveStallInEnvelope: a server-streaming call; the peer has sent one message and k bytes of the
// next envelope (inside its 5-byte prefix for k < 5, inside its payload beyond) and stalls; the
// context ends while Receive is blocked there.
func (e *liveEnv) liveStallInEnvelope(r *h.Run, fam, proto string, h2 bool, k int, deadline bool) {
	srv := e.srv1
	if h2 {
		srv = e.srv2
	}
	c := &liveCall{r: r, mode: "C15", fam: fam, kind: "server", proto: proto, h2: h2, prog: hprog{WaitCtx: true}}
	c.id = fmt.Sprint(e.seq.Add(1))
	c.obs = e.get(c.id)
	c.cc = &countingClient{inner: srv.Client()}
	client := connect.NewClient[h.Raw, h.Raw](c.cc, srv.URL+"/verif.Svc/StallAfterMessage", liveClientOpts(proto)...)
	want := connect.CodeCanceled.String()
	var ctx context.Context
	var cancel context.CancelFunc
	if deadline {
		want = connect.CodeDeadlineExceeded.String()
		ctx, cancel = context.WithTimeout(context.Background(), 250*time.Millisecond)
	} else {
		ctx, cancel = context.WithCancel(context.Background())
		time.AfterFunc(250*time.Millisecond, cancel)
	}
	defer cancel()
	r.Eval(fam, fmt.Sprintf("stall-in-envelope/%s/%v/%d/%v", proto, h2, k, deadline))
	c.log = append(c.log, fmt.Sprintf("[the peer sends one message and %d byte(s) of the next envelope, then stalls; the context ends (%s) while Receive is blocked]", k, want))
	req := connect.NewRequest(bigMsg(16))
	req.Header().Set("X-Call", c.id)
	req.Header().Set("X-Extra-Bytes", fmt.Sprint(k))
	var st *connect.ServerStreamForClient[h.Raw]
	if err, ok := c.step("CallServerStream", func() error { var err error; st, err = client.CallServerStream(ctx, req); return err }); !ok || err != nil {
		return
	}
	first := false
	if _, ok := c.step("Receive", func() error { first = st.Receive(); return st.Err() }); !ok {
		return
	}
	if !first {
		r.Sample(fam, c.input())
		return // (the first message did not arrive before the context ended: nothing to judge here)
	}
	err, ok := c.step("Receive", func() error {
		if st.Receive() {
			return nil
		}
		return st.Err()
	})
	if !ok {
		return
	}
	if got := liveCls(err); got != want {
		c.r.Fail(h.Failure{Key: "cancel/code/Receive", Family: fam, What: "a Receive blocked inside the next envelope when the context ended returned " + got, Input: c.input(), Expected: want, Actual: got})
	}
	c.step("Close", func() error { return st.Close() })
	r.Sample(fam, c.input())
}

// closeFailsIcpt: a streaming client interceptor whose conn closes the request side and then
// reports a failure of its own from CloseRequest.
type closeFailsIcpt struct{}

func (closeFailsIcpt) WrapUnary(next connect.UnaryFunc) connect.UnaryFunc { return next }
func (closeFailsIcpt) WrapStreamingHandler(next connect.StreamingHandlerFunc) connect.StreamingHandlerFunc {
	return next
}
func (closeFailsIcpt) WrapStreamingClient(next connect.StreamingClientFunc) connect.StreamingClientFunc {
	return func(ctx context.Context, spec connect.Spec) connect.StreamingClientConn {
		return &closeFailsConn{next(ctx, spec)}
	}
}

type closeFailsConn struct{ connect.StreamingClientConn }

func (c *closeFailsConn) CloseRequest() error {
	_ = c.StreamingClientConn.CloseRequest()
	return errors.New("interceptor: could not flush its bookkeeping")
}

// liveCloseRequestFails: CallServerStream fails because an interceptor's CloseRequest does: the
// caller gets no stream it could close, so nothing of the call may remain — no goroutine, no
// open response body.
func (e *liveEnv) liveCloseRequestFails(r *h.Run, fam, proto string, h2 bool) {
	c, url, hc := e.newCall(r, "C14", fam, "server", proto, h2, hprog{Send: 2})
	client := connect.NewClient[h.Raw, h.Raw](hc, url, append(liveClientOpts(proto), connect.WithInterceptors(closeFailsIcpt{}))...)
	c.log = append(c.log, "[a client interceptor's conn closes the request side and then returns an error of its own from CloseRequest]")
	r.Eval(fam, fmt.Sprintf("close-request-fails/%s/%v", proto, h2))
	req := connect.NewRequest(bigMsg(16))
	req.Header().Set("X-Call", c.id)
	req.Header().Set("X-Prog", c.prog.String())
	var st *connect.ServerStreamForClient[h.Raw]
	err, ok := c.step("CallServerStream", func() error { var err error; st, err = client.CallServerStream(context.Background(), req); return err })
	if !ok {
		return
	}
	if err == nil {
		// (the library may also decide to go on; then the caller finishes the call as usual)
		c.step("Close", func() error { return st.Close() })
	}
	c.handlerReturned(2 * time.Second)
	time.Sleep(100 * time.Millisecond) // (let the response arrive: a body that is never closed is what is looked for)
	r.Sample(fam, c.input())
	c.afterCall(true)
}

// liveSwitchingProtocols: the peer answers 101 and keeps the connection open (HTTP/1.1). The
// call has a deadline of 300 ms: every operation returns in bounded time — with the status-derived
// error at once, or with the context's when the deadline passes — and never a success.
func (e *liveEnv) liveSwitchingProtocols(r *h.Run, fam, kind, proto string) {
	c := &liveCall{r: r, mode: "C14", fam: fam, kind: kind, proto: proto, h2: false, prog: hprog{}}
	c.id = fmt.Sprint(e.seq.Add(1))
	c.obs = e.get(c.id)
	c.cc = &countingClient{inner: e.srv1.Client()}
	client := connect.NewClient[h.Raw, h.Raw](c.cc, e.srv1.URL+"/verif.Svc/Switch101", liveClientOpts(proto)...)
	c.log = append(c.log, "[the peer answers 101 Switching Protocols and keeps the connection open; the call's context has a deadline of 300 ms]")
	r.Eval(fam, fmt.Sprintf("switching-protocols/%s/%s", kind, proto))
	ctx, cancel := context.WithTimeout(context.Background(), 300*time.Millisecond)
	defer cancel()
	start := time.Now()
	judge := func(op string, err error, ok bool) {
		if !ok {
			return
		}
		if err == nil {
			c.r.Fail(h.Failure{Key: "outcome/101-succeeded", Family: fam, What: op + " succeeded on a call answered with 101 Switching Protocols", Input: c.input()})
		} else if connect.CodeOf(err) == 0 {
			c.r.Fail(h.Failure{Key: "outcome/zero-code", Family: fam, What: op + " failed with the zero code", Input: c.input()})
		}
		if d := time.Since(start); d > 2*time.Second {
			c.r.Fail(h.Failure{Key: "hang/" + op + "/past-deadline", Family: fam, What: fmt.Sprintf("%s returned %v after the call started, although its context's deadline was 300 ms away: it waited for the peer to close the connection", op, d.Round(100*time.Millisecond)), Input: c.input()})
		}
	}
	switch kind {
	case "unary":
		err, ok := c.step("CallUnary", func() error { _, err := client.CallUnary(ctx, connect.NewRequest(bigMsg(16))); return err })
		judge("CallUnary", err, ok)
	case "server":
		var st *connect.ServerStreamForClient[h.Raw]
		err, ok := c.step("CallServerStream", func() error { var err error; st, err = client.CallServerStream(ctx, connect.NewRequest(bigMsg(16))); return err })
		if ok && err == nil {
			err, ok = c.step("Receive", func() error {
				if st.Receive() {
					return nil
				}
				if st.Err() == nil {
					return io.EOF
				}
				return st.Err()
			})
			if ok && errors.Is(err, io.EOF) && connect.CodeOf(err) == connect.CodeUnknown && st.Err() == nil {
				c.r.Fail(h.Failure{Key: "outcome/101-succeeded", Family: fam, What: "the stream of a call answered with 101 ended cleanly", Input: c.input()})
			}
			judge("Receive", err, ok)
			_, ok = c.step("Close", func() error { return st.Close() })
			judge("Close", errors.New("(not judged)"), ok)
		} else {
			judge("CallServerStream", err, ok)
		}
	default:
		st := client.CallClientStream(ctx)
		c.step("Send", func() error { return st.Send(bigMsg(16)) })
		err, ok := c.step("CloseAndReceive", func() error { _, err := st.CloseAndReceive(); return err })
		judge("CloseAndReceive", err, ok)
	}
	r.Sample(fam, c.input())
}

// liveUnaryStall: a unary call whose response message has arrived; the context ends while the
// call waits for the end of the response.
func (e *liveEnv) liveUnaryStall(r *h.Run, fam, proto string, h2, deadline bool) {
	srv := e.srv1
	if h2 {
		srv = e.srv2
	}
	c := &liveCall{r: r, mode: "C15", fam: fam, kind: "unary", proto: proto, h2: h2, prog: hprog{WaitCtx: true}}
	c.id = fmt.Sprint(e.seq.Add(1))
	c.obs = e.get(c.id)
	c.cc = &countingClient{inner: srv.Client()}
	path, opts := "/verif.Svc/StallAfterMessage", liveClientOpts(proto)
	if proto == "connect-error-body" {
		// unary Connect, non-200: the error is the JSON body; the peer has sent the beginning of
		// it and stalls: the client is reading the error body when the context ends
		proto = "connect"
		c.proto = "connect"
		path, opts = "/verif.Svc/StallInErrorBody", liveClientOpts("connect")
		c.log = append(c.log, "[the peer answers 503 with the beginning of a JSON error body and stalls]")
	} else if proto == "connect" {
		// unary Connect: the body is the message. The client limits messages to 16 bytes, the
		// peer has sent 64 and stalls: the client is throwing the rest away when the context ends
		path, opts = "/verif.Svc/StallInBody", append(opts, connect.WithReadMaxBytes(16))
		c.log = append(c.log, "[the client limits response messages to 16 bytes; the peer sends 64 bytes of a longer body and stalls]")
	}
	client := connect.NewClient[h.Raw, h.Raw](c.cc, srv.URL+path, opts...)
	want := connect.CodeCanceled.String()
	var ctx context.Context
	var cancel context.CancelFunc
	if deadline {
		want = connect.CodeDeadlineExceeded.String()
		ctx, cancel = context.WithTimeout(context.Background(), 200*time.Millisecond)
	} else {
		ctx, cancel = context.WithCancel(context.Background())
		time.AfterFunc(200*time.Millisecond, cancel)
	}
	defer cancel()
	r.Eval(fam, fmt.Sprintf("unary-stall/%s/%v/%v", proto, h2, deadline))
	if proto != "connect" {
		c.log = append(c.log, "[the peer sends the response message at once and stalls before ending the response; the context ends meanwhile]")
	}
	req := connect.NewRequest(bigMsg(16))
	req.Header().Set("X-Call", c.id)
	err, ok := c.step("CallUnary", func() error { _, err := client.CallUnary(ctx, req); return err })
	if !ok {
		return
	}
	if got := liveCls(err); got != want {
		c.r.Fail(h.Failure{Key: "cancel/code/CallUnary", Family: fam, What: "a unary call whose context ended while it waited for the end of the response returned " + got, Input: c.input(), Expected: want, Actual: got})
	}
	r.Sample(fam, c.input())
}

// liveLocalFailure: the client's Receive fails for a reason of its own (the message is beyond
// its read limit) while the handler — which terminates once the client closes its request side
// — is still waiting: the program Send, Receive, CloseRequest, CloseResponse must run to its
// end, every call returning in bounded time.
func (e *liveEnv) liveLocalFailure(r *h.Run, fam, proto string, compressed bool) {
	c := &liveCall{r: r, mode: "C14", fam: fam, kind: "bidi", proto: proto, h2: true, prog: hprog{}}
	c.id = fmt.Sprint(e.seq.Add(1))
	c.obs = e.get(c.id)
	c.cc = &countingClient{inner: e.srv2.Client()}
	opts := append(liveClientOpts(proto), connect.WithReadMaxBytes(256))
	if compressed {
		// (the handler compresses its responses when the client accepts gzip, which it does by
		// default: the 1 KiB message arrives in an envelope smaller than the limit and is refused
		// when it has been inflated)
		c.log = append(c.log, "[the client limits messages to 256 bytes; the handler sends 1 KiB (gzip: the envelope is within the limit, the message is not) and then reads the request to its end]")
	} else {
		c.log = append(c.log, "[the client limits messages to 256 bytes; the handler sends 1 KiB that gzip cannot shrink (the envelope itself is beyond the limit) and then reads the request to its end]")
	}
	client := connect.NewClient[h.Raw, h.Raw](c.cc, e.srv2.URL+"/verif.Svc/BigThenDrain", opts...)
	r.Eval(fam, fmt.Sprintf("local-failure/%s/%v", proto, compressed))
	ctx, cancel := context.WithCancel(context.Background())
	defer cancel()
	st := client.CallBidiStream(ctx)
	st.RequestHeader().Set("X-Call", c.id)
	if !compressed {
		st.RequestHeader().Set("X-Incompressible", "1")
	}
	c.step("Send", func() error { return st.Send(bigMsg(16)) })
	start := time.Now()
	done := make(chan error, 1)
	go func() { _, err := st.Receive(); done <- err }()
	select {
	case err := <-done:
		c.log = append(c.log, "Receive -> "+liveCls(err))
		if err == nil {
			c.r.Fail(h.Failure{Key: "outcome/oversize-delivered", Family: fam, What: "a message beyond the client's read limit was delivered", Input: c.input()})
		}
	case <-time.After(1500 * time.Millisecond):
		c.log = append(c.log, fmt.Sprintf("Receive -> DID NOT RETURN within %v (the handler waits for the end of the request, which this program sends after Receive)", time.Since(start).Round(100*time.Millisecond)))
		key := "hang/Receive"
		if proto == "grpc" {
			key = "hang/grpc/receive-drains-after-local-failure"
		}
		c.r.Fail(h.Failure{Key: key, Family: fam, What: "Receive did not return although its failure was local (the message was beyond the read limit): it waits for the handler to end the response, and the handler waits for the client to close the request side", Input: c.input()})
		_ = st.CloseRequest() // release both sides
		<-done
		_ = st.CloseResponse()
		r.Sample(fam, c.input())
		return
	}
	c.step("CloseRequest", func() error { return st.CloseRequest() })
	c.step("CloseResponse", func() error { return st.CloseResponse() })
	r.Sample(fam, c.input())
	c.afterCall(true)
}

// liveEarlyHeaders: the peer has sent its response headers while the request
// side is still open (HTTP/2); then the context ends while the client is idle,
// or during a Send blocked on flow control.
func (e *liveEnv) liveEarlyHeaders(r *h.Run, fam, kind, proto string, blockedSend, deadline bool) {
	c := &liveCall{r: r, mode: "C15", fam: fam, kind: kind, proto: proto, h2: true, prog: hprog{WaitCtx: true}}
	c.id = fmt.Sprint(e.seq.Add(1))
	c.obs = e.get(c.id)
	c.cc = &countingClient{inner: e.srv2.Client()}
	client := connect.NewClient[h.Raw, h.Raw](c.cc, e.srv2.URL+"/verif.Svc/Early", liveClientOpts(proto)...)
	want := connect.CodeCanceled.String()
	var ctx context.Context
	var cancel context.CancelFunc
	if deadline {
		want = connect.CodeDeadlineExceeded.String()
		ctx, cancel = context.WithTimeout(context.Background(), 150*time.Millisecond)
	} else {
		ctx, cancel = context.WithCancel(context.Background())
	}
	defer cancel()
	r.Eval(fam, fmt.Sprintf("early/%s/%s/%v/%v", kind, proto, blockedSend, deadline))
	var send func(*h.Raw) error
	var hdr http.Header
	if kind == "bidi" {
		st := client.CallBidiStream(ctx)
		hdr, send = st.RequestHeader(), st.Send
	} else {
		st := client.CallClientStream(ctx)
		hdr, send = st.RequestHeader(), st.Send
	}
	hdr.Set("X-Call", c.id)
	if !blockedSend {
		hdr.Set("X-Read", "1")
	}
	c.log = append(c.log, "[the peer sends response headers at once and waits]")
	if err, ok := c.step("Send", func() error { return send(bigMsg(16)) }); !ok {
		return
	} else if err != nil {
		c.r.Fail(h.Failure{Key: "live/unexpected", Family: fam, What: "Send failed on a live context: " + err.Error(), Input: c.input()})
		return
	}
	if blockedSend {
		if !deadline {
			go func() { time.Sleep(80 * time.Millisecond); cancel() }()
		}
		var err error
		ok := true
		for i := 0; i < 64 && err == nil && ok; i++ {
			err, ok = c.step("Send(256KiB)", func() error { return send(bigMsg(256 << 10)) })
		}
		if !ok {
			return
		}
		if err == nil {
			r.Note("live_cancel: 64 x 256KiB did not block the sender (early headers, %s %s)", kind, proto)
		} else if got := liveCls(err); got != want && got != "eof" {
			c.r.Fail(h.Failure{Key: "cancel/code/Send", Family: fam, What: "a Send interrupted by the end of the context failed with " + got, Input: c.input(), Expected: want, Actual: got})
		}
	} else {
		time.Sleep(40 * time.Millisecond) // idle
		if deadline {
			<-ctx.Done()
		} else {
			cancel()
		}
		c.log = append(c.log, "[the context ends while the client is idle]")
	}
	if !c.handlerReturned(handlerCtxWait + time.Second) {
		c.r.Fail(h.Failure{Key: "handler-ctx/handler-did-not-return", Family: fam, What: "the peer's handler did not return", Input: c.input()})
		return
	}
	c.obs.mu.Lock()
	done := c.obs.CtxDone
	c.obs.mu.Unlock()
	if !done {
		key := "handler-ctx/not-cancelled"
		if blockedSend {
			// net/http's HTTP/2 transport is parked on flow control: closing the request pipe does not reach it
			key = "handler-ctx/http2/blocked-send-after-headers"
		}
		c.r.Fail(h.Failure{Key: key, Family: fam, What: fmt.Sprintf("response headers had arrived and the request side was open: the peer's context did not end within %v of the client's", handlerCtxWait), Input: c.input()})
	}
	r.Sample(fam, c.input())
}
