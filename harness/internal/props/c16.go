package props

import (
	"bytes"
	"context"
	"errors"
	"fmt"
	"net/http"
	"net/http/httptest"
	"strings"
	"sync"

	connect "github.com/bufbuild/connect-go"
	"github.com/bufbuild/connect-go/verifharness/internal/h"
	"google.golang.org/protobuf/types/known/wrapperspb"
)

type bv = wrapperspb.BytesValue

// ---- option forests ----
type optNode struct {
	kind  int   // 0 WithInterceptors, 1 WithOptions, 2 WithClientOptions/WithHandlerOptions, 3 other option
	ids   []int // kind 0: interceptor ids, 0 = nil entry
	nodes []*optNode
}

func (n *optNode) coq() string {
	switch n.kind {
	case 0:
		items := make([]string, len(n.ids))
		for i, id := range n.ids {
			if id == 0 {
				items[i] = "None"
			} else {
				items[i] = fmt.Sprintf("Some %d", id)
			}
		}
		return "WithInterceptors " + h.CoqList(items)
	case 1, 2:
		items := make([]string, len(n.nodes))
		for i, c := range n.nodes {
			items[i] = c.coq()
		}
		return "WithOptions " + h.CoqList(items)
	}
	return "OtherOption"
}

func (n *optNode) flat(out *[]int) {
	switch n.kind {
	case 0:
		for _, id := range n.ids {
			if id != 0 {
				*out = append(*out, id)
			}
		}
	case 1, 2:
		for _, c := range n.nodes {
			c.flat(out)
		}
	}
}

// c16FuncForm: build even-numbered interceptors as connect.UnaryInterceptorFunc values (unary sides only)
var c16FuncForm bool

type evlog struct {
	mu sync.Mutex
	ev []string
}

func (l *evlog) add(s string) { l.mu.Lock(); l.ev = append(l.ev, s); l.mu.Unlock() }

type logIcpt struct {
	id  int
	log *evlog
}

func (i *logIcpt) WrapUnary(next connect.UnaryFunc) connect.UnaryFunc {
	return func(ctx context.Context, req connect.AnyRequest) (connect.AnyResponse, error) {
		i.log.add(fmt.Sprintf("enter %d", i.id))
		res, err := next(ctx, req)
		i.log.add(fmt.Sprintf("exit %d", i.id))
		return res, err
	}
}

type logClientConn struct {
	connect.StreamingClientConn
	i *logIcpt
}

func (c *logClientConn) Send(m any) error {
	c.i.log.add(fmt.Sprintf("send %d", c.i.id))
	return c.StreamingClientConn.Send(m)
}
func (c *logClientConn) Receive(m any) error {
	err := c.StreamingClientConn.Receive(m)
	if err == nil {
		c.i.log.add(fmt.Sprintf("recv %d", c.i.id))
	}
	return err
}

func (i *logIcpt) WrapStreamingClient(next connect.StreamingClientFunc) connect.StreamingClientFunc {
	return func(ctx context.Context, spec connect.Spec) connect.StreamingClientConn {
		i.log.add(fmt.Sprintf("enter %d", i.id))
		conn := next(ctx, spec)
		i.log.add(fmt.Sprintf("exit %d", i.id))
		return &logClientConn{StreamingClientConn: conn, i: i}
	}
}

type logHandlerConn struct {
	connect.StreamingHandlerConn
	i *logIcpt
}

func (c *logHandlerConn) Send(m any) error {
	c.i.log.add(fmt.Sprintf("send %d", c.i.id))
	return c.StreamingHandlerConn.Send(m)
}

func (i *logIcpt) WrapStreamingHandler(next connect.StreamingHandlerFunc) connect.StreamingHandlerFunc {
	return func(ctx context.Context, conn connect.StreamingHandlerConn) error {
		i.log.add(fmt.Sprintf("enter %d", i.id))
		err := next(ctx, &logHandlerConn{StreamingHandlerConn: conn, i: i})
		i.log.add(fmt.Sprintf("exit %d", i.id))
		return err
	}
}

// build returns the option value for a node. Nodes of kind 2 are one-sided
// (WithClientOptions / WithHandlerOptions); all others are connect.Option.
func (n *optNode) build(log *evlog, client bool) (connect.ClientOption, connect.HandlerOption) {
	switch n.kind {
	case 0:
		ics := make([]connect.Interceptor, len(n.ids))
		for i, id := range n.ids {
			if id != 0 {
				li := &logIcpt{id: id, log: log}
				ics[i] = li
				if c16FuncForm && id%2 == 0 {
					// the same interceptor given as a connect.UnaryInterceptorFunc: lists may mix the two forms
					ics[i] = connect.UnaryInterceptorFunc(li.WrapUnary)
				}
			}
		}
		o := connect.WithInterceptors(ics...)
		return o, o
	case 1:
		opts := make([]connect.Option, len(n.nodes))
		for i, c := range n.nodes {
			co, _ := c.build(log, client)
			opts[i] = co.(connect.Option) // genForest never nests a one-sided node here
		}
		o := connect.WithOptions(opts...)
		return o, o
	case 2:
		if client {
			opts := make([]connect.ClientOption, len(n.nodes))
			for i, c := range n.nodes {
				opts[i], _ = c.build(log, client)
			}
			return connect.WithClientOptions(opts...), nil
		}
		opts := make([]connect.HandlerOption, len(n.nodes))
		for i, c := range n.nodes {
			_, opts[i] = c.build(log, client)
		}
		return nil, connect.WithHandlerOptions(opts...)
	}
	o := connect.WithCompressMinBytes(3)
	return o, o
}

// genForest splits ids (with nils) into consecutive groups and nests them.
func genForest(rng *h.Rng, ids []int, depth int, sided bool) []*optNode {
	var out []*optNode
	i := 0
	for i < len(ids) || (len(out) == 0 && rng.Intn(3) == 0) {
		switch k := rng.Intn(10); {
		case k < 5 || depth <= 0:
			n := rng.Intn(4)
			if i+n > len(ids) {
				n = len(ids) - i
			}
			out = append(out, &optNode{kind: 0, ids: append([]int{}, ids[i:i+n]...)})
			i += n
		case k < 8:
			n := rng.Intn(len(ids) - i + 1)
			kind := 1
			if sided && rng.Bool() {
				kind = 2
			}
			out = append(out, &optNode{kind: kind, nodes: genForest(rng, ids[i:i+n], depth-1, kind == 2)})
			i += n
		default:
			out = append(out, &optNode{kind: 3})
		}
		if len(out) > 12 {
			out = append(out, &optNode{kind: 0, ids: append([]int{}, ids[i:]...)})
			i = len(ids)
		}
	}
	return out
}

func filterLog(ev []string, prefix string) []int {
	var out []int
	for _, e := range ev {
		if strings.HasPrefix(e, prefix+" ") {
			var id int
			fmt.Sscanf(e[len(prefix)+1:], "%d", &id)
			out = append(out, id)
		}
	}
	return out
}

func intsEq(a, b []int) bool {
	if len(a) != len(b) {
		return false
	}
	for i := range a {
		if a[i] != b[i] {
			return false
		}
	}
	return true
}

func reversed(a []int) []int {
	out := make([]int, len(a))
	for i := range a {
		out[len(a)-1-i] = a[i]
	}
	return out
}

// C16 — interceptor nesting.
func C16(r *h.Run) {
	r.Model("c16case", "c16_ok")
	r.Sum.Rule = "interceptor lists of length 0..5 with nil at any position (all nil masks for n<=3), every composition into consecutive WithInterceptors groups for n<=4, random nestings (depth<=4) inside WithOptions/WithClientOptions/WithHandlerOptions with unrelated options interleaved; x {client unary, client streaming, handler unary, handler streaming}; observed = order in which instrumented interceptors enter/exit and see Send/Receive during a real call. distinct = distinct (side,kind,forest)"
	rng := r.Rng.Fork("c16")

	runOne := func(side string, forest []*optNode) {
		c16FuncForm = strings.HasSuffix(side, "unary")
		defer func() { c16FuncForm = false }()
		log := &evlog{}
		var flat []int
		items := make([]string, len(forest))
		for i, n := range forest {
			n.flat(&flat)
			items[i] = n.coq()
		}
		coqForest := h.CoqList(items)
		var copts []connect.ClientOption
		var hopts []connect.HandlerOption
		for _, n := range forest {
			co, ho := n.build(log, strings.HasPrefix(side, "client"))
			if strings.HasPrefix(side, "client") {
				copts = append(copts, co)
			} else {
				hopts = append(hopts, ho)
			}
		}
		mux := http.NewServeMux()
		mux.Handle("/verif.Svc/Unary", connect.NewUnaryHandler("/verif.Svc/Unary",
			func(_ context.Context, req *connect.Request[bv]) (*connect.Response[bv], error) {
				log.add("core")
				return connect.NewResponse(&bv{Value: req.Msg.Value}), nil
			}, hopts...))
		mux.Handle("/verif.Svc/Stream", connect.NewClientStreamHandler("/verif.Svc/Stream",
			func(_ context.Context, s *connect.ClientStream[bv]) (*connect.Response[bv], error) {
				log.add("core")
				n := 0
				for s.Receive() {
					n++
				}
				return connect.NewResponse(&bv{Value: []byte{byte(n)}}), s.Err()
			}, hopts...))
		lc := &h.LocalClient{Handler: mux}
		var callErr error
		unary := strings.HasSuffix(side, "unary")
		if p := safely(func() {
			if unary {
				cl := connect.NewClient[bv, bv](lc, "http://verif.local/verif.Svc/Unary", copts...)
				_, callErr = cl.CallUnary(context.Background(), connect.NewRequest(&bv{Value: []byte("x")}))
			} else {
				cl := connect.NewClient[bv, bv](lc, "http://verif.local/verif.Svc/Stream", copts...)
				st := cl.CallClientStream(context.Background())
				callErr = st.Send(&bv{Value: []byte("a")})
				if callErr == nil {
					_, callErr = st.CloseAndReceive()
				}
			}
		}); p != nil {
			r.Fail(h.Failure{Key: "interceptors/panic", Family: side, What: fmt.Sprint("panic: ", p), Input: coqForest})
			return
		}
		if callErr != nil {
			r.Fail(h.Failure{Key: "interceptors/call-failed", Family: side, What: "call failed: " + callErr.Error(), Input: coqForest})
			return
		}
		enter, exit := filterLog(log.ev, "enter"), filterLog(log.ev, "exit")
		r.Eval(side, coqForest)
		r.Sample(side, map[string]any{"forest": coqForest, "enter_order": enter, "exit_order": exit})
		obs := make([]string, len(enter))
		for i, id := range enter {
			obs[i] = fmt.Sprint(id)
		}
		r.Case(side, fmt.Sprintf("IcptCase %s %s", coqForest, h.CoqList(obs)), map[string]any{"side": side, "forest": coqForest, "impl_enter_order": enter})
		// direct oracle: flat declaration order, first outermost, each exactly once, nil skipped
		if !intsEq(enter, flat) {
			r.Fail(h.Failure{Key: "interceptors/order", Family: side, What: "interceptors do not enter in flat declaration order (first = outermost), each exactly once", Input: coqForest, Expected: flat, Actual: enter})
		}
		if !intsEq(exit, reversed(flat)) {
			r.Fail(h.Failure{Key: "interceptors/order", Family: side, What: "interceptors do not exit in reverse declaration order", Input: coqForest, Expected: reversed(flat), Actual: exit})
		}
		if !unary {
			send, recv := filterLog(log.ev, "send"), filterLog(log.ev, "recv")
			// onion: on a client the first interceptor sees outgoing messages first and
			// incoming ones last; on a handler the response (its Send) leaves through
			// the innermost interceptor first.
			wantSend := flat
			if side == "handler_stream" {
				wantSend = reversed(flat)
			}
			if !intsEq(send, wantSend) {
				r.Fail(h.Failure{Key: "interceptors/order", Family: side, What: "messages passing through Send do not cross the interceptors in onion order", Input: coqForest, Expected: wantSend, Actual: send})
			}
			if side == "client_stream" && !intsEq(recv, reversed(flat)) {
				r.Fail(h.Failure{Key: "interceptors/order", Family: side, What: "incoming message not seen innermost-first", Input: coqForest, Expected: reversed(flat), Actual: recv})
			}
		}
	}
	// The same option VALUES applied in several lists (what generated constructors and
	// shared option variables do): sub-lists, reorderings and repetitions of one set of
	// built options; each application must compose exactly its own list.
	runShared := func(side string, forest []*optNode, lists [][]int) {
		log := &evlog{}
		client := strings.HasPrefix(side, "client")
		copts := make([]connect.ClientOption, len(forest))
		hopts := make([]connect.HandlerOption, len(forest))
		for i, n := range forest {
			copts[i], hopts[i] = n.build(log, client)
		}
		for _, idx := range lists {
			var flat []int
			var items []string
			var cl []connect.ClientOption
			var hl []connect.HandlerOption
			for _, i := range idx {
				forest[i].flat(&flat)
				items = append(items, forest[i].coq())
				if client {
					cl = append(cl, copts[i])
				} else {
					hl = append(hl, hopts[i])
				}
			}
			coqForest := h.CoqList(items)
			log.mu.Lock()
			log.ev = nil
			log.mu.Unlock()
			mux := http.NewServeMux()
			mux.Handle("/verif.Svc/Unary", connect.NewUnaryHandler("/verif.Svc/Unary",
				func(_ context.Context, req *connect.Request[bv]) (*connect.Response[bv], error) {
					return connect.NewResponse(&bv{Value: req.Msg.Value}), nil
				}, hl...))
			var callErr error
			if p := safely(func() {
				c := connect.NewClient[bv, bv](&h.LocalClient{Handler: mux}, "http://verif.local/verif.Svc/Unary", cl...)
				_, callErr = c.CallUnary(context.Background(), connect.NewRequest(&bv{Value: []byte("x")}))
			}); p != nil || callErr != nil {
				r.Fail(h.Failure{Key: "interceptors/panic", Family: "shared_options", What: fmt.Sprint("panic or failed call: ", p, callErr), Input: coqForest})
				continue
			}
			enter := filterLog(log.ev, "enter")
			r.Eval("shared_options", side+coqForest+fmt.Sprint(idx))
			r.Sample("shared_options", map[string]any{"side": side, "applied_list": coqForest, "positions_in_the_shared_set": idx, "enter_order": enter})
			if !intsEq(enter, flat) {
				r.Fail(h.Failure{Key: "interceptors/order", Family: "shared_options", What: "option values shared between several clients / handlers: this application did not compose exactly its own list",
					Input: map[string]any{"side": side, "applied_list": coqForest, "positions_in_the_shared_set": idx, "applied_after": "the preceding lists of the same run"}, Expected: flat, Actual: enter})
			}
		}
	}
	for si, side := range []string{"client_unary", "handler_unary"} {
		for k := 0; k < r.N(6, 40); k++ {
			n := 2 + rng.Intn(4)
			ids := make([]int, n)
			for j := range ids {
				ids[j] = j + 1
				if rng.Intn(6) == 0 {
					ids[j] = 0
				}
			}
			var forest []*optNode
			for start := 0; start < n; {
				end := start + 1 + rng.Intn(2)
				if end > n {
					end = n
				}
				forest = append(forest, &optNode{kind: 0, ids: ids[start:end]})
				start = end
			}
			m := len(forest)
			lists := [][]int{{m - 1}, {0, m - 1}, {m - 1, 0}, {m - 1, m - 1}}
			all := make([]int, m)
			for i := range all {
				all[i] = i
			}
			lists = append(lists, all, []int{0})
			for x := 0; x < 3; x++ {
				var l []int
				for y := 0; y < 1+rng.Intn(4); y++ {
					l = append(l, rng.Intn(m))
				}
				lists = append(lists, l)
			}
			runShared(side, forest, lists)
			_ = si
		}
	}
	// Groups that are sub-slices of ONE slice of the caller's (stack[:k]..., stack[k:]...), with
	// groups built elsewhere between them: the chain is still the flat concatenation, and the
	// caller's slice is not written to
	for k := 0; k < r.N(24, 200); k++ {
		side := []string{"client_unary", "handler_unary", "client_stream", "handler_stream"}[k%4]
		client := strings.HasPrefix(side, "client")
		log := &evlog{}
		n := 2 + rng.Intn(4)
		stack := make([]connect.Interceptor, n)
		for j := range stack {
			stack[j] = &logIcpt{id: j + 1, log: log}
		}
		orig := append([]connect.Interceptor(nil), stack...)
		var flat []int
		var desc []string
		var copts []connect.ClientOption
		var hopts []connect.HandlerOption
		add := func(o connect.Option) {
			if client {
				copts = append(copts, o)
			} else {
				hopts = append(hopts, o)
			}
		}
		nextFresh := 100
		for start := 0; start < n; {
			end := start + 1 + rng.Intn(2)
			if start == 0 {
				end = 1 + (k/4)%3
			}
			if end > n {
				end = n
			}
			add(connect.WithInterceptors(stack[start:end]...))
			for j := start; j < end; j++ {
				flat = append(flat, j+1)
			}
			desc = append(desc, fmt.Sprintf("WithInterceptors(stack[%d:%d]...)", start, end))
			start = end
			if start < n && rng.Intn(3) != 0 {
				nextFresh++
				add(connect.WithInterceptors(&logIcpt{id: nextFresh, log: log}))
				flat = append(flat, nextFresh)
				desc = append(desc, fmt.Sprintf("WithInterceptors(fresh %d)", nextFresh))
			}
		}
		in := map[string]any{"side": side, "stack": fmt.Sprintf("a slice of %d interceptors 1..%d", n, n), "options": desc}
		mux := http.NewServeMux()
		mux.Handle("/verif.Svc/Unary", connect.NewUnaryHandler("/verif.Svc/Unary",
			func(_ context.Context, req *connect.Request[bv]) (*connect.Response[bv], error) {
				return connect.NewResponse(&bv{Value: req.Msg.Value}), nil
			}, hopts...))
		mux.Handle("/verif.Svc/Stream", connect.NewClientStreamHandler("/verif.Svc/Stream",
			func(_ context.Context, s *connect.ClientStream[bv]) (*connect.Response[bv], error) {
				for s.Receive() {
				}
				return connect.NewResponse(&bv{}), s.Err()
			}, hopts...))
		var callErr error
		var written []int
		mutate := (k/12)%2 == 0 // (side, length of the first group and this: every combination within 24 runs)
		p := safely(func() {
			cu := connect.NewClient[bv, bv](&h.LocalClient{Handler: mux}, "http://verif.local/verif.Svc/Unary", copts...)
			cs := connect.NewClient[bv, bv](&h.LocalClient{Handler: mux}, "http://verif.local/verif.Svc/Stream", copts...)
			for j := range stack {
				if stack[j] != orig[j] {
					written = append(written, j)
				}
			}
			if mutate {
				// the client and the handlers exist: what the caller does with ITS slice from now
				// on (re-using it for the next client, clearing it) is no business of theirs
				for j := range stack {
					stack[j] = &logIcpt{id: 900 + j, log: log}
					if j%2 == 1 {
						stack[j] = nil
					}
				}
				in["afterwards"] = "the caller overwrites every element of its slice (other interceptors, nil) before the first call"
			}
			if strings.HasSuffix(side, "unary") {
				_, callErr = cu.CallUnary(context.Background(), connect.NewRequest(&bv{Value: []byte("x")}))
			} else {
				st := cs.CallClientStream(context.Background())
				callErr = st.Send(&bv{Value: []byte("a")})
				if callErr == nil {
					_, callErr = st.CloseAndReceive()
				}
			}
		})
		r.Eval("caller_slices", fmt.Sprint(side, desc, mutate))
		if p != nil || callErr != nil {
			r.Fail(h.Failure{Key: "interceptors/panic", Family: "caller_slices", What: fmt.Sprint("panic or failed call: ", p, callErr), Input: in})
			continue
		}
		enter := filterLog(log.ev, "enter")
		r.Sample("caller_slices", map[string]any{"in": in, "enter_order": enter})
		if !intsEq(enter, flat) {
			r.Fail(h.Failure{Key: "interceptors/order", Family: "caller_slices", What: "groups taken as sub-slices of one caller-owned slice: the chain is not the flat concatenation in declaration order, each interceptor once", Input: in, Expected: flat, Actual: enter})
		}
		if len(written) > 0 {
			r.Fail(h.Failure{Key: "interceptors/caller-slice-written", Family: "caller_slices", What: fmt.Sprintf("building the client / handler overwrote element %d of the caller's slice", written[0]), Input: in})
		}
	}

	// One option VALUE listed more than once inside one bundle (WithOptions(a, b, a)): the list
	// is what was declared, repetitions included
	for k := 0; k < r.N(12, 80); k++ {
		side := []string{"client_unary", "handler_unary"}[k%2]
		client := side == "client_unary"
		log := &evlog{}
		n := 2 + rng.Intn(3)
		vals := make([]connect.Option, n)
		for j := range vals {
			vals[j] = connect.WithInterceptors(&logIcpt{id: j + 1, log: log})
		}
		m := 3 + rng.Intn(3)
		var bundle []connect.Option
		var flat []int
		for j := 0; j < m; j++ {
			x := rng.Intn(n)
			bundle = append(bundle, vals[x])
			flat = append(flat, x+1)
		}
		var copts []connect.ClientOption
		var hopts []connect.HandlerOption
		kindName := ""
		switch k % 3 {
		case 0:
			kindName = "WithOptions"
			o := connect.WithOptions(bundle...)
			copts, hopts = []connect.ClientOption{o}, []connect.HandlerOption{o}
		case 1:
			kindName = "WithClientOptions / WithHandlerOptions"
			co := make([]connect.ClientOption, len(bundle))
			ho := make([]connect.HandlerOption, len(bundle))
			for j, b := range bundle {
				co[j], ho[j] = b, b
			}
			copts, hopts = []connect.ClientOption{connect.WithClientOptions(co...)}, []connect.HandlerOption{connect.WithHandlerOptions(ho...)}
		default:
			kindName = "top-level option list"
			for _, b := range bundle {
				copts, hopts = append(copts, b), append(hopts, b)
			}
		}
		if client {
			hopts = nil
		} else {
			copts = nil
		}
		mux := http.NewServeMux()
		mux.Handle("/verif.Svc/Unary", connect.NewUnaryHandler("/verif.Svc/Unary",
			func(_ context.Context, req *connect.Request[bv]) (*connect.Response[bv], error) {
				return connect.NewResponse(&bv{Value: req.Msg.Value}), nil
			}, hopts...))
		var callErr error
		p := safely(func() {
			c := connect.NewClient[bv, bv](&h.LocalClient{Handler: mux}, "http://verif.local/verif.Svc/Unary", copts...)
			_, callErr = c.CallUnary(context.Background(), connect.NewRequest(&bv{Value: []byte("x")}))
		})
		in := map[string]any{"side": side, "bundle": kindName, "positions_of_the_option_values_listed": flat}
		r.Eval("repeated_option_values", fmt.Sprint(side, kindName, flat))
		if p != nil || callErr != nil {
			r.Fail(h.Failure{Key: "interceptors/panic", Family: "repeated_option_values", What: fmt.Sprint("panic or failed call: ", p, callErr), Input: in})
			continue
		}
		enter := filterLog(log.ev, "enter")
		r.Sample("repeated_option_values", map[string]any{"in": in, "enter_order": enter})
		if !intsEq(enter, flat) {
			r.Fail(h.Failure{Key: "interceptors/order", Family: "repeated_option_values", What: "an option value listed more than once: the chain is not the flat concatenation of what was declared", Input: in, Expected: flat, Actual: enter})
		}
	}

	// WithRecover is one more interceptor in the declared list: it recovers panics of what is
	// declared AFTER it (inside it), not of what is declared before it (outside it)
	for _, stream := range []bool{false, true} {
		for n := 2; n <= 4; n++ {
			for rpos := 0; rpos < n; rpos++ {
				for ppos := 0; ppos <= n; ppos++ { // ppos == n: the handler function itself panics
					if ppos == rpos {
						continue
					}
					handled := 0
					var hopts []connect.HandlerOption
					var desc []string
					for j := 0; j < n; j++ {
						switch j {
						case rpos:
							hopts = append(hopts, connect.WithRecover(func(context.Context, connect.Spec, http.Header, any) error {
								handled++
								return connect.NewError(connect.CodeDataLoss, errors.New("recovered"))
							}))
							desc = append(desc, "WithRecover")
						case ppos:
							hopts = append(hopts, connect.WithInterceptors(panicIcpt{}))
							desc = append(desc, "WithInterceptors(panics)")
						default:
							hopts = append(hopts, connect.WithInterceptors(&logIcpt{id: j + 1, log: &evlog{}}))
							desc = append(desc, "WithInterceptors(plain)")
						}
					}
					var handler *connect.Handler
					if stream {
						handler = connect.NewClientStreamHandler("/verif.Svc/M", func(_ context.Context, s *connect.ClientStream[bv]) (*connect.Response[bv], error) {
							if ppos == n {
								panic("handler function panics")
							}
							for s.Receive() {
							}
							return connect.NewResponse(&bv{}), nil
						}, hopts...)
					} else {
						handler = connect.NewUnaryHandler("/verif.Svc/M", func(_ context.Context, req *connect.Request[bv]) (*connect.Response[bv], error) {
							if ppos == n {
								panic("handler function panics")
							}
							return connect.NewResponse(&bv{}), nil
						}, hopts...)
					}
					body := []byte{}
					ct := "application/proto"
					if stream {
						body = h.Frame(0, nil)
						ct = "application/connect+proto"
					}
					req := httptest.NewRequest(http.MethodPost, "/verif.Svc/M", bytes.NewReader(body))
					req.Header.Set("Content-Type", ct)
					escaped := safely(func() { handler.ServeHTTP(httptest.NewRecorder(), req) })
					in := map[string]any{"side": map[bool]string{false: "handler_unary", true: "handler_stream"}[stream], "options_in_declaration_order": desc, "handler_function_panics": ppos == n}
					r.Eval("recover_position", fmt.Sprint(stream, n, rpos, ppos))
					coqIcs := make([]string, n)
					for j := range coqIcs {
						switch j {
						case rpos:
							coqIcs[j] = "IRecover"
						case ppos:
							coqIcs[j] = "(IPanic (PVal tt))"
						default:
							coqIcs[j] = "IPass"
						}
					}
					r.Case("recover_position", fmt.Sprintf("RecPosCase %s %s %d %s", h.CoqList(coqIcs), h.CoqBool(ppos == n), handled, h.CoqBool(escaped != nil)),
						map[string]any{"in": in, "impl_recover_handler_calls": handled, "impl_panic_escaped": escaped != nil})
					wantRecovered := ppos > rpos
					if wantRecovered != (handled == 1 && escaped == nil) || (!wantRecovered && (handled != 0 || escaped == nil)) {
						r.Fail(h.Failure{Key: "interceptors/recover-position", Family: "recover_position", What: "WithRecover does not sit at its declared position in the chain (it recovers exactly the panics of what is declared after it)", Input: in,
							Expected: map[string]any{"recovered": wantRecovered}, Actual: map[string]any{"recover_handler_calls": handled, "panic_escaped_ServeHTTP": escaped != nil}})
					}
				}
			}
		}
	}

	sides := []string{"client_unary", "client_stream", "handler_unary", "handler_stream"}
	// exhaustive small space: n <= maxN, every nil mask (n<=3), every composition into consecutive groups
	maxN := r.N(4, 5)
	count := 0
	for n := 0; n <= maxN; n++ {
		masks := 1
		if n <= 3 {
			masks = 1 << n
		}
		for mask := 0; mask < masks; mask++ {
			ids := make([]int, n)
			for i := range ids {
				ids[i] = i + 1
				if mask&(1<<i) != 0 {
					ids[i] = 0
				}
			}
			cuts := 1
			if n > 0 {
				cuts = 1 << (n - 1)
			}
			for c := 0; c < cuts; c++ {
				var forest []*optNode
				start := 0
				for i := 1; i <= n; i++ {
					if i == n || c&(1<<(i-1)) != 0 {
						forest = append(forest, &optNode{kind: 0, ids: ids[start:i]})
						start = i
					}
				}
				runOne(sides[count%4], forest)
				if n <= 3 {
					runOne(sides[(count+1)%4], forest)
					runOne(sides[(count+2)%4], forest)
					runOne(sides[(count+3)%4], forest)
				}
				count++
			}
		}
	}
	r.Sum.Exhaustive[fmt.Sprintf("lists up to length %d x every composition into consecutive groups (x every nil mask for n<=3)", maxN)] = true
	// random nestings
	for i := 0; i < r.N(250, 3000); i++ {
		n := rng.Intn(6)
		ids := make([]int, n)
		for j := range ids {
			ids[j] = j + 1
			if rng.Intn(5) == 0 {
				ids[j] = 0
			}
		}
		forest := genForest(rng, ids, 4, true)
		runOne(sides[i%4], forest)
	}
}

// panicIcpt panics when the call passes through it.
type panicIcpt struct{}

func (panicIcpt) WrapUnary(connect.UnaryFunc) connect.UnaryFunc {
	return func(context.Context, connect.AnyRequest) (connect.AnyResponse, error) {
		panic("interceptor panics")
	}
}
func (panicIcpt) WrapStreamingClient(next connect.StreamingClientFunc) connect.StreamingClientFunc {
	return next
}
func (panicIcpt) WrapStreamingHandler(connect.StreamingHandlerFunc) connect.StreamingHandlerFunc {
	return func(context.Context, connect.StreamingHandlerConn) error { panic("interceptor panics") }
}
