package props

import (
	"bytes"
	"fmt"
	"go/ast"
	"go/parser"
	"go/token"
	"os"
	"os/exec"
	"path/filepath"
	"strconv"
	"strings"

	"github.com/bufbuild/connect-go/verifharness/internal/h"
	"google.golang.org/protobuf/proto"
	"google.golang.org/protobuf/types/descriptorpb"
	"google.golang.org/protobuf/types/pluginpb"
)

type gMethod struct {
	Name       string
	CS, SS     bool
	Deprecated bool
	Comment    string
}
type gService struct {
	Name       string
	Deprecated bool
	Methods    []gMethod
}
type gFile struct {
	Package   string
	GoPackage string
	Services  []gService
}

func goCamel(s string) string {
	// protogen's GoCamelCase for the names we generate (letters, digits, underscores)
	var out []byte
	up := true
	for i := 0; i < len(s); i++ {
		c := s[i]
		switch {
		case c == '_' && i+1 < len(s) && s[i+1] >= 'a' && s[i+1] <= 'z':
			up = true
			continue
		case up && c >= 'a' && c <= 'z':
			out = append(out, c-32)
		default:
			out = append(out, c)
		}
		up = false
	}
	if len(out) > 0 && out[0] == '_' {
		out = append([]byte("X"), out[1:]...)
	}
	return string(out)
}

func (f gFile) descriptor(name string) *descriptorpb.FileDescriptorProto {
	fd := &descriptorpb.FileDescriptorProto{
		Name:    proto.String(name),
		Syntax:  proto.String("proto3"),
		Options: &descriptorpb.FileOptions{GoPackage: proto.String(f.GoPackage)},
		MessageType: []*descriptorpb.DescriptorProto{
			{Name: proto.String("Req"), Field: []*descriptorpb.FieldDescriptorProto{{Name: proto.String("v"), Number: proto.Int32(1), Type: descriptorpb.FieldDescriptorProto_TYPE_BYTES.Enum(), Label: descriptorpb.FieldDescriptorProto_LABEL_OPTIONAL.Enum(), JsonName: proto.String("v")}}},
			{Name: proto.String("Res"), Field: []*descriptorpb.FieldDescriptorProto{{Name: proto.String("v"), Number: proto.Int32(1), Type: descriptorpb.FieldDescriptorProto_TYPE_BYTES.Enum(), Label: descriptorpb.FieldDescriptorProto_LABEL_OPTIONAL.Enum(), JsonName: proto.String("v")}}},
		},
	}
	if f.Package != "" {
		fd.Package = proto.String(f.Package)
	}
	typePrefix := "."
	if f.Package != "" {
		typePrefix = "." + f.Package + "."
	}
	var locs []*descriptorpb.SourceCodeInfo_Location
	for si, s := range f.Services {
		sd := &descriptorpb.ServiceDescriptorProto{Name: proto.String(s.Name)}
		if s.Deprecated {
			sd.Options = &descriptorpb.ServiceOptions{Deprecated: proto.Bool(true)}
		}
		for mi, m := range s.Methods {
			md := &descriptorpb.MethodDescriptorProto{
				Name: proto.String(m.Name), InputType: proto.String(typePrefix + "Req"), OutputType: proto.String(typePrefix + "Res"),
			}
			if m.CS {
				md.ClientStreaming = proto.Bool(true)
			}
			if m.SS {
				md.ServerStreaming = proto.Bool(true)
			}
			if m.Deprecated {
				md.Options = &descriptorpb.MethodOptions{Deprecated: proto.Bool(true)}
			}
			if m.Comment != "" {
				locs = append(locs, &descriptorpb.SourceCodeInfo_Location{Path: []int32{6, int32(si), 2, int32(mi)}, Span: []int32{int32(10 + mi), 0, 10}, LeadingComments: proto.String(m.Comment)})
			}
			sd.Method = append(sd.Method, md)
		}
		fd.Service = append(fd.Service, sd)
	}
	if len(locs) > 0 {
		fd.SourceCodeInfo = &descriptorpb.SourceCodeInfo{Location: locs}
	}
	return fd
}

func runPlugin(bin string, req *pluginpb.CodeGeneratorRequest) (*pluginpb.CodeGeneratorResponse, error) {
	in, err := proto.Marshal(req)
	if err != nil {
		return nil, err
	}
	cmd := exec.Command(bin)
	cmd.Stdin = bytes.NewReader(in)
	var out, errb bytes.Buffer
	cmd.Stdout, cmd.Stderr = &out, &errb
	if err := cmd.Run(); err != nil {
		return nil, fmt.Errorf("%v: %s", err, errb.String())
	}
	var res pluginpb.CodeGeneratorResponse
	if err := proto.Unmarshal(out.Bytes(), &res); err != nil {
		return nil, err
	}
	return &res, nil
}

type skeletonRow struct {
	MuxPath, HandlerProc, HandlerCtor, ClientSuffix, ClientCall, Field string
}

func kindOfCtor(name string) string {
	switch name {
	case "NewUnaryHandler", "CallUnary":
		return "KUnary"
	case "NewClientStreamHandler", "CallClientStream":
		return "KClientStream"
	case "NewServerStreamHandler", "CallServerStream":
		return "KServerStream"
	case "NewBidiStreamHandler", "CallBidiStream":
		return "KBidi"
	}
	return "K?" + name
}

func strLit(e ast.Expr) (string, bool) {
	if bl, ok := e.(*ast.BasicLit); ok && bl.Kind == token.STRING {
		s, err := strconv.Unquote(bl.Value)
		return s, err == nil
	}
	return "", false
}

// extractSkeleton pulls the routing skeleton of one service out of generated code.
func extractSkeleton(src string, svcGoName string) (rows []skeletonRow, mount string, err error) {
	fset := token.NewFileSet()
	f, perr := parser.ParseFile(fset, "gen.connect.go", src, 0)
	if perr != nil {
		return nil, "", perr
	}
	type hreg struct{ path, proc, ctor, method string }
	var hregs []hreg
	clientSuffix := map[string]string{} // field -> suffix
	var fieldOrder []string
	fieldCall := map[string]string{} // "<impl type>.<method GoName>" -> "field|Call"
	implType := ""
	for _, d := range f.Decls {
		fd, ok := d.(*ast.FuncDecl)
		if !ok {
			continue
		}
		switch {
		case fd.Name.Name == "New"+svcGoName+"Handler":
			ast.Inspect(fd.Body, func(n ast.Node) bool {
				switch x := n.(type) {
				case *ast.CallExpr:
					if se, ok := x.Fun.(*ast.SelectorExpr); ok && se.Sel.Name == "Handle" && len(x.Args) == 2 {
						path, _ := strLit(x.Args[0])
						if inner, ok := x.Args[1].(*ast.CallExpr); ok && len(inner.Args) >= 2 {
							ctor := ""
							switch fn := inner.Fun.(type) {
							case *ast.SelectorExpr:
								ctor = fn.Sel.Name
							case *ast.IndexListExpr:
								if se, ok := fn.X.(*ast.SelectorExpr); ok {
									ctor = se.Sel.Name
								}
							}
							proc, _ := strLit(inner.Args[0])
							meth := ""
							if se, ok := inner.Args[1].(*ast.SelectorExpr); ok {
								meth = se.Sel.Name
							}
							hregs = append(hregs, hreg{path, proc, ctor, meth})
						}
					}
				case *ast.ReturnStmt:
					if len(x.Results) == 2 {
						if s, ok := strLit(x.Results[0]); ok {
							mount = s
						}
					}
				}
				return true
			})
		case fd.Name.Name == "New"+svcGoName+"Client":
			ast.Inspect(fd.Body, func(n ast.Node) bool {
				if cl, ok := n.(*ast.CompositeLit); ok {
					if id, ok := cl.Type.(*ast.Ident); ok && implType == "" {
						implType = id.Name
					}
				}
				kv, ok := n.(*ast.KeyValueExpr)
				if !ok {
					return true
				}
				key, ok := kv.Key.(*ast.Ident)
				if !ok {
					return true
				}
				if call, ok := kv.Value.(*ast.CallExpr); ok && len(call.Args) >= 2 {
					if be, ok := call.Args[1].(*ast.BinaryExpr); ok {
						if s, ok := strLit(be.Y); ok {
							clientSuffix[key.Name] = s
							fieldOrder = append(fieldOrder, key.Name)
						}
					}
				}
				return true
			})
		case fd.Recv != nil && len(fd.Recv.List) == 1:
			// func (c *xClient) Method(...) { return c.<field>.CallX(...) }
			recv := ""
			if st, ok := fd.Recv.List[0].Type.(*ast.StarExpr); ok {
				if id, ok := st.X.(*ast.Ident); ok {
					recv = id.Name
				}
			}
			ast.Inspect(fd.Body, func(n ast.Node) bool {
				call, ok := n.(*ast.CallExpr)
				if !ok {
					return true
				}
				if se, ok := call.Fun.(*ast.SelectorExpr); ok && strings.HasPrefix(se.Sel.Name, "Call") {
					if inner, ok := se.X.(*ast.SelectorExpr); ok {
						fieldCall[recv+"."+fd.Name.Name] = inner.Sel.Name + "|" + se.Sel.Name
					}
				}
				return true
			})
		}
	}
	for i, hr := range hregs {
		row := skeletonRow{MuxPath: hr.path, HandlerProc: hr.proc, HandlerCtor: hr.ctor}
		fc := strings.SplitN(fieldCall[implType+"."+hr.method], "|", 2)
		if len(fc) == 2 {
			row.Field, row.ClientCall = fc[0], fc[1]
			row.ClientSuffix = clientSuffix[fc[0]]
		} else if i < len(fieldOrder) {
			row.Field = fieldOrder[i]
			row.ClientSuffix = clientSuffix[row.Field]
		}
		rows = append(rows, row)
	}
	return rows, mount, nil
}

func goEnv() []string {
	env := os.Environ()
	env = append(env, "GOFLAGS=-mod=mod", "GOPROXY=off", "GOSUMDB=off", "GOTOOLCHAIN=local")
	return env
}

func run(dir string, name string, args ...string) (string, error) {
	cmd := exec.Command(name, args...)
	cmd.Dir = dir
	cmd.Env = goEnv()
	out, err := cmd.CombinedOutput()
	return string(out), err
}

// C17 — code generator.
func C17(r *h.Run) {
	r.Model("c17case", "c17_ok")
	r.Sum.Rule = "the plugin built from the working tree fed programmatic CodeGeneratorRequests: package absent/single/dotted x service and method names (CamelCase, snake_case, lower-camel forms that are Go keywords, digits) x 1..3 services x 1..5 methods x 4 streaming kinds x deprecation x comments x go_package forms, files without services; each run twice (determinism), go/parser on the output, routing skeleton extracted from the AST and compared with the model and the canonical path; a subset compiled (go build, go vet) together with protoc-gen-go output against /repo; checked-in ping.connect.go regenerated from its embedded descriptor. distinct = distinct descriptor"
	rng := r.Rng.Fork("c17")
	repo := os.Getenv("VERIF_REPO")
	if repo == "" {
		repo = "/repo"
	}
	work, _ := filepath.Abs(filepath.Join(r.Out, "work"))
	_ = os.MkdirAll(work, 0o755)
	plugin := filepath.Join(work, "protoc-gen-connect-go")
	if out, err := run(repo, "go", "build", "-o", plugin, "./cmd/protoc-gen-connect-go"); err != nil {
		r.Fail(h.Failure{Key: "codegen/plugin-build", Family: "build", What: "the plugin does not build: " + out})
		return
	}
	genGo := filepath.Join(work, "protoc-gen-go")
	if out, err := run(repo, "go", "build", "-o", genGo, "google.golang.org/protobuf/cmd/protoc-gen-go"); err != nil {
		r.Note("protoc-gen-go could not be built (%s); compile checks skipped", strings.TrimSpace(out))
		genGo = ""
	}

	keywordish := []string{"Import", "Type", "Go", "Func", "Map", "Range", "Select", "Default", "Var", "Return", "import", "type", "go_to", "Package", "Switch", "Interface", "For", "If", "Else", "Chan", "Const", "Defer", "Break", "Case", "Continue", "Fallthrough", "Goto", "Struct",
		"IF", "GO", "FOR", "MAP", "TYPE", "RANGE", "CHAN", "VAR", "FUNC"}
	plain := []string{"Do", "Ping", "GetThing", "get_thing", "List2", "sum", "CumSum", "X", "a_b_c", "Do_It", "HTTPCall"}
	pkgs := []string{"", "", "acme", "acme.foo.v1", "a.b", "connect.ping.v1"}
	var files []gFile
	// systematic: every keyword-ish method name, with and without package
	for i, k := range keywordish {
		files = append(files, gFile{Package: pkgs[i%len(pkgs)], GoPackage: "example.com/gen/p;p", Services: []gService{{Name: "Svc", Methods: []gMethod{{Name: k, CS: i%2 == 1, SS: i%4 >= 2}}}}})
	}
	for i := 0; i < r.N(18, 120); i++ {
		f := gFile{Package: pkgs[rng.Intn(len(pkgs))], GoPackage: []string{"example.com/gen/p;p", "example.com/gen/foo", "example.com/x/y/zv1;zv1"}[rng.Intn(3)]}
		ns := 1 + rng.Intn(3)
		for s := 0; s < ns; s++ {
			svc := gService{Name: []string{"Svc", "PingService", "my_service", "Type", "A"}[rng.Intn(5)] + strings.Repeat("X", s), Deprecated: rng.Intn(5) == 0}
			nm := 1 + rng.Intn(5)
			used := map[string]bool{}
			for m := 0; m < nm; m++ {
				pool := plain
				if rng.Intn(3) == 0 {
					pool = keywordish
				}
				name := pool[rng.Intn(len(pool))]
				if used[goCamel(name)] {
					continue
				}
				used[goCamel(name)] = true
				meth := gMethod{Name: name, CS: rng.Bool(), SS: rng.Bool(), Deprecated: rng.Intn(6) == 0}
				if rng.Intn(3) == 0 {
					meth.Comment = " " + name + " does something.\n It spans two lines with a very long sentence that will certainly need wrapping somewhere around here, yes.\n"
				}
				svc.Methods = append(svc.Methods, meth)
			}
			f.Services = append(f.Services, svc)
		}
		files = append(files, f)
	}
	// go_package values whose last element (or explicit name) is the name of a package the
	// generated code itself imports: protogen must rename one of the two imports
	for _, gp := range []string{"example.com/gen/acme/http", "example.com/gen/context", "example.com/gen/errors", "example.com/gen/strings", "example.com/gen/x;connect_go", "example.com/gen/y;http"} {
		files = append(files, gFile{Package: "acme.v1", GoPackage: gp, Services: []gService{{Name: "Gateway", Methods: []gMethod{
			{Name: "Do"}, {Name: "Up", CS: true}, {Name: "Down", SS: true}, {Name: "Both", CS: true, SS: true}}}}})
	}
	// method names of one service that differ only in the letter case of their leading capitals
	for i, pair := range [][]string{{"GETUser", "GetUser"}, {"AB", "Ab"}, {"HTTPCall", "HttpCall", "Httpcall"}, {"ID", "Id", "IDs"}} {
		var ms []gMethod
		for j, n := range pair {
			ms = append(ms, gMethod{Name: n, CS: j%2 == 1, SS: (i+j)%3 == 0})
		}
		files = append(files, gFile{Package: "acme.v1", GoPackage: "example.com/gen/casepairs;casepairs", Services: []gService{{Name: "Users", Methods: ms}}})
	}
	// long names: the fully-qualified method name around and beyond the width the generator wraps
	// its comments to (97), a service name beyond it, a long single-word comment
	for i, total := range []int{90, 95, 96, 97, 98, 121, 200} {
		pkg := "acme.warehouse.inventory.v1"
		svcName := "StockService"
		pad := total - len(pkg) - 1 - len(svcName) - 1
		meth := "Get" + strings.Repeat("Item", pad/4+1)
		meth = meth[:pad]
		files = append(files, gFile{Package: pkg, GoPackage: "example.com/gen/longnames;longnames", Services: []gService{{Name: svcName, Methods: []gMethod{
			{Name: meth, CS: i%2 == 1, SS: i%3 == 0, Comment: " " + strings.Repeat("x", 90+i*3) + "\n"}}}}})
	}
	files = append(files, gFile{Package: "acme.v1", GoPackage: "example.com/gen/longnames;longnames", Services: []gService{{Name: "Very" + strings.Repeat("Long", 24) + "Service", Methods: []gMethod{{Name: "Get"}}}}})
	// services without methods (valid; next to others and alone)
	files = append(files, gFile{Package: "acme.v1", GoPackage: "example.com/gen/casepairs;casepairs", Services: []gService{{Name: "AdminService"}, {Name: "Users", Methods: []gMethod{{Name: "Get"}}}}})
	files = append(files, gFile{Package: "", GoPackage: "example.com/gen/casepairs;casepairs", Services: []gService{{Name: "Empty"}}})
	collides := func(gp string) bool {
		if strings.HasSuffix(gp, ";casepairs") || strings.HasSuffix(gp, ";longnames") {
			return true // (always compiled)
		}
		for _, suf := range []string{"/http", "/context", "/errors", "/strings", ";connect_go", ";http"} {
			if strings.HasSuffix(gp, suf) {
				return true
			}
		}
		return false
	}
	files = append(files, gFile{Package: "nosvc.v1", GoPackage: "example.com/gen/nosvc;nosvc"}) // no services

	compiled := 0
	single := map[int]string{} // file index -> generated content when generated alone
	for fi, f := range files {
		fd := f.descriptor(fmt.Sprintf("t%d/svc.proto", fi))
		req := &pluginpb.CodeGeneratorRequest{FileToGenerate: []string{fd.GetName()}, ProtoFile: []*descriptorpb.FileDescriptorProto{fd}}
		in := map[string]any{"file": f}
		res, err := runPlugin(plugin, req)
		r.Eval("generate", fmt.Sprint(f))
		if err != nil || res.Error != nil {
			r.Fail(h.Failure{Key: "codegen/generator-fails", Family: "generate", What: "the generator failed on a valid file", Input: in, Actual: fmt.Sprint(err, " ", res.GetError())})
			continue
		}
		if res.GetSupportedFeatures()&uint64(pluginpb.CodeGeneratorResponse_FEATURE_PROTO3_OPTIONAL) == 0 {
			// protoc and buf refuse the plugin's answer for a proto3 file with optional fields
			// unless the response declares this feature, whether or not anything was generated
			r.Fail(h.Failure{Key: "codegen/proto3-optional-not-declared", Family: "generate", What: "the response does not declare FEATURE_PROTO3_OPTIONAL: protoc fails the run for every proto3 file with an optional field", Input: in, Actual: res.GetSupportedFeatures()})
		}
		res2, _ := runPlugin(plugin, req)
		if res2 == nil || !proto.Equal(res, res2) {
			r.Fail(h.Failure{Key: "codegen/nondeterministic", Family: "generate", What: "two runs on the same request differ", Input: in})
		}
		if len(f.Services) == 0 {
			if len(res.File) != 0 {
				r.Fail(h.Failure{Key: "codegen/output-without-services", Family: "generate", What: "a file without services produced output", Input: in})
			}
			continue
		}
		if len(res.File) != 1 {
			r.Fail(h.Failure{Key: "codegen/file-count", Family: "generate", What: "expected exactly one generated file", Input: in, Actual: len(res.File)})
			continue
		}
		src := res.File[0].GetContent()
		single[fi] = src
		if dup := duplicateFields(src); dup != "" {
			r.Fail(h.Failure{Key: "codegen/does-not-compile", Family: "generate", What: "generated code declares a struct field twice: " + dup, Input: in})
		}
		for _, s := range f.Services {
			goName := goCamel(s.Name)
			rows, mount, perr := extractSkeleton(src, goName)
			if perr != nil {
				r.Fail(h.Failure{Key: "codegen/unparsable-go", Family: "generate", What: "generated code is not syntactically valid Go: " + perr.Error(), Input: in})
				break
			}
			fq := s.Name
			if f.Package != "" {
				fq = f.Package + "." + s.Name
			}
			var obs, ms []string
			for mi, m := range s.Methods {
				ms = append(ms, fmt.Sprintf("mkM %s %s %s %s", h.CoqStr(m.Name), h.CoqStr(goCamel(m.Name)), h.CoqBool(m.CS), h.CoqBool(m.SS)))
				if mi >= len(rows) {
					continue
				}
				row := rows[mi]
				obs = append(obs, fmt.Sprintf("mkSk %s %s %s %s %s %s", h.CoqStr(row.MuxPath), h.CoqStr(row.HandlerProc), kindOfCtor(row.HandlerCtor), h.CoqStr(row.ClientSuffix), kindOfCtor(row.ClientCall), h.CoqStr(row.Field)))
				want := "/" + fq + "/" + m.Name
				kind := map[[2]bool]string{{false, false}: "KUnary", {true, false}: "KClientStream", {false, true}: "KServerStream", {true, true}: "KBidi"}[[2]bool{m.CS, m.SS}]
				min := map[string]any{"file": f, "service": s.Name, "method": m.Name}
				if row.MuxPath != want || row.HandlerProc != want || row.ClientSuffix != want {
					key := "codegen/path"
					if f.Package == "" {
						key = "codegen/path-without-package"
					}
					r.Fail(h.Failure{Key: key, Family: "generate", What: "handler registration, Spec label and client URL do not all carry the canonical path /<fully-qualified service>/<method>", Input: min, Expected: want, Actual: row})
				}
				if kindOfCtor(row.HandlerCtor) != kind || kindOfCtor(row.ClientCall) != kind {
					r.Fail(h.Failure{Key: "codegen/constructor-kind", Family: "generate", What: "constructor does not match the method's streaming kind", Input: min, Expected: kind, Actual: row})
				}
			}
			if len(rows) != len(s.Methods) {
				r.Fail(h.Failure{Key: "codegen/method-count", Family: "generate", What: "not every method is registered exactly once", Input: in, Actual: len(rows)})
			}
			if mount != "/"+fq+"/" {
				r.Fail(h.Failure{Key: "codegen/mount-prefix", Family: "generate", What: "wrong mount prefix", Input: in, Expected: "/" + fq + "/", Actual: mount})
			}
			r.Sample("generate", map[string]any{"file": f, "service": s.Name, "skeleton": rows, "mount": mount})
			r.Case("generate", fmt.Sprintf("GenCase %s (mkS %s %s %s) %s %s", h.CoqStr(f.Package), h.CoqStr(s.Name), h.CoqStr(goName), h.CoqList(ms), h.CoqList(obs), h.CoqStr(mount)),
				map[string]any{"file": f, "service": s.Name, "impl_skeleton": rows, "impl_mount": mount})
		}
		// compile a subset together with protoc-gen-go's output
		if genGo != "" && (fi < 6 || fi%r.N(9, 3) == 0 || collides(f.GoPackage)) {
			pb, err := runPlugin(genGo, req)
			if err != nil || pb.Error != nil || len(pb.File) != 1 {
				r.Note("protoc-gen-go failed on case %d: %v %s", fi, err, pb.GetError())
				continue
			}
			dir := filepath.Join(work, fmt.Sprintf("m%d", fi))
			_ = os.RemoveAll(dir)
			pbPath := filepath.Join(dir, pb.File[0].GetName())
			cnPath := filepath.Join(dir, res.File[0].GetName())
			_ = os.MkdirAll(filepath.Dir(pbPath), 0o755)
			_ = os.MkdirAll(filepath.Dir(cnPath), 0o755)
			_ = os.WriteFile(pbPath, []byte(pb.File[0].GetContent()), 0o644)
			_ = os.WriteFile(cnPath, []byte(src), 0o644)
			gomod := "module example.com\n\ngo 1.18\n\nrequire (\n\tgithub.com/bufbuild/connect-go v0.0.0\n\tgoogle.golang.org/protobuf v1.28.0\n)\n\nreplace github.com/bufbuild/connect-go => " + repo + "\n"
			// generated paths start with the import path example.com/gen/...: strip it
			rel := func(p string) string { return strings.TrimPrefix(p, "example.com/") }
			_ = os.RemoveAll(dir)
			pbPath, cnPath = filepath.Join(dir, rel(pb.File[0].GetName())), filepath.Join(dir, rel(res.File[0].GetName()))
			_ = os.MkdirAll(filepath.Dir(pbPath), 0o755)
			_ = os.MkdirAll(filepath.Dir(cnPath), 0o755)
			_ = os.WriteFile(pbPath, []byte(pb.File[0].GetContent()), 0o644)
			_ = os.WriteFile(cnPath, []byte(src), 0o644)
			_ = os.WriteFile(filepath.Join(dir, "go.mod"), []byte(gomod), 0o644)
			if data, err := os.ReadFile(filepath.Join(repo, "go.sum")); err == nil {
				_ = os.WriteFile(filepath.Join(dir, "go.sum"), data, 0o644)
			}
			out, err := run(dir, "go", "build", "./...")
			r.Eval("compile", fmt.Sprint(fi))
			compiled++
			if err != nil {
				r.Fail(h.Failure{Key: "codegen/does-not-compile", Family: "compile", What: "generated code does not type-check against the library", Input: in, Actual: out})
			} else if out, err := run(dir, "go", "vet", "./..."); err != nil {
				r.Fail(h.Failure{Key: "codegen/vet", Family: "compile", What: "go vet rejects the generated code", Input: in, Actual: out})
			}
			_ = os.RemoveAll(dir)
		}
	}
	// ---- several files in one request (what `protoc a.proto b.proto` and buf send): files
	// without services next to files with services, in every order ----
	noSvc := len(files) - 1
	var withSvc []int
	for fi := range files {
		if _, ok := single[fi]; ok {
			withSvc = append(withSvc, fi)
		}
	}
	if len(withSvc) >= 2 {
		a, b := withSvc[0], withSvc[len(withSvc)-1]
		// two files of one request must not generate the same output file
		// ... nor define the same message names in the same proto package
		b = a
		for _, cand := range withSvc[1:] {
			if files[cand].GoPackage != files[a].GoPackage && files[cand].Package != files[a].Package {
				b = cand
			}
		}
		orders := [][]int{{noSvc, a}, {a, noSvc}}
		if b != a {
			orders = append(orders, []int{noSvc, a, b}, []int{a, noSvc, b}, []int{a, b, noSvc}, []int{a, b})
		}
		for oi, order := range orders {
			req := &pluginpb.CodeGeneratorRequest{}
			for _, fi := range order {
				fd := files[fi].descriptor(fmt.Sprintf("t%d/svc.proto", fi))
				req.ProtoFile = append(req.ProtoFile, fd)
				req.FileToGenerate = append(req.FileToGenerate, fd.GetName())
			}
			in := map[string]any{"files_in_request_order": order, "file_without_services": noSvc}
			r.Eval("generate_multi", fmt.Sprint(order))
			res, err := runPlugin(plugin, req)
			if err != nil || res.Error != nil {
				r.Fail(h.Failure{Key: "codegen/generator-fails", Family: "generate_multi", What: "the generator failed on a valid multi-file request", Input: in, Actual: fmt.Sprint(err, " ", res.GetError())})
				continue
			}
			want := 0
			for _, fi := range order {
				if fi == noSvc {
					continue
				}
				want++
				found := false
				for _, out := range res.File {
					if out.GetContent() == single[fi] {
						found = true
					}
				}
				if !found {
					r.Fail(h.Failure{Key: "codegen/multi-file-output", Family: "generate_multi", What: fmt.Sprintf("file %d has services but the request produced no output identical to what it yields when generated alone", fi), Input: in, Actual: len(res.File)})
				}
			}
			if len(res.File) != want {
				r.Fail(h.Failure{Key: "codegen/file-count", Family: "generate_multi", What: "one output per file with services expected", Input: in, Expected: want, Actual: len(res.File)})
			}
			_ = oi
		}
	}
	r.Note("compiled %d generated packages with go build + go vet", compiled)
	c17CrossPackageTypes(r, plugin)
	c17CheckedIn(r, plugin, repo)
	_ = os.Remove(plugin)
	if genGo != "" {
		_ = os.Remove(genGo)
	}
}

// duplicateFields reports a struct field name declared twice in one struct type of src.
func duplicateFields(src string) string {
	f, err := parser.ParseFile(token.NewFileSet(), "gen.go", src, 0)
	if err != nil {
		return ""
	}
	dup := ""
	ast.Inspect(f, func(n ast.Node) bool {
		st, ok := n.(*ast.StructType)
		if !ok || dup != "" {
			return dup == ""
		}
		seen := map[string]bool{}
		for _, fl := range st.Fields.List {
			for _, nm := range fl.Names {
				if seen[nm.Name] {
					dup = nm.Name
				}
				seen[nm.Name] = true
			}
		}
		return true
	})
	return dup
}

// c17CrossPackageTypes: request and response types that live in OTHER Go packages than the
// service's, two of them with the same Go type name (users.v1.GetRequest, orders.v1.GetRequest; a
// local Empty next to another package's Empty). Every place of the generated code that names a
// method's types names the right package: the source is parsed, and for each method all
// occurrences of *connect_go.Request[pkg.T] / Response[pkg.T] / stream types that sit in that
// method's declarations must agree with the types the descriptor gives the method.
func c17CrossPackageTypes(r *h.Run, plugin string) {
	msg := func(name string) *descriptorpb.DescriptorProto {
		return &descriptorpb.DescriptorProto{Name: proto.String(name), Field: []*descriptorpb.FieldDescriptorProto{{Name: proto.String("v"), Number: proto.Int32(1), Type: descriptorpb.FieldDescriptorProto_TYPE_BYTES.Enum(), Label: descriptorpb.FieldDescriptorProto_LABEL_OPTIONAL.Enum(), JsonName: proto.String("v")}}}
	}
	dep := func(file, pkg, gopkg string, names ...string) *descriptorpb.FileDescriptorProto {
		fd := &descriptorpb.FileDescriptorProto{Name: proto.String(file), Package: proto.String(pkg), Syntax: proto.String("proto3"), Options: &descriptorpb.FileOptions{GoPackage: proto.String(gopkg)}}
		for _, n := range names {
			fd.MessageType = append(fd.MessageType, msg(n))
		}
		return fd
	}
	users := dep("users/v1/users.proto", "users.v1", "example.com/gen/users/v1;usersv1", "GetRequest", "GetResponse", "Empty")
	orders := dep("orders/v1/orders.proto", "orders.v1", "example.com/gen/orders/v1;ordersv1", "GetRequest", "GetResponse", "Empty")
	type meth struct {
		name, in, out string
		cs, ss        bool
	}
	for vi, methods := range [][]meth{
		{{"GetUser", ".users.v1.GetRequest", ".users.v1.GetResponse", false, false}, {"GetOrder", ".orders.v1.GetRequest", ".orders.v1.GetResponse", false, false}},
		{{"GetOrder", ".orders.v1.GetRequest", ".orders.v1.GetResponse", false, true}, {"GetUser", ".users.v1.GetRequest", ".users.v1.GetResponse", true, false}, {"Both", ".users.v1.GetRequest", ".orders.v1.GetResponse", true, true}},
		{{"Ping", ".api.v1.Empty", ".users.v1.Empty", false, false}, {"Pong", ".orders.v1.Empty", ".api.v1.Empty", false, false}},
	} {
		api := dep("api/v1/api.proto", "api.v1", "example.com/gen/api/v1;apiv1", "Empty")
		api.Dependency = []string{users.GetName(), orders.GetName()}
		sd := &descriptorpb.ServiceDescriptorProto{Name: proto.String("Gateway")}
		for _, m := range methods {
			md := &descriptorpb.MethodDescriptorProto{Name: proto.String(m.name), InputType: proto.String(m.in), OutputType: proto.String(m.out)}
			if m.cs {
				md.ClientStreaming = proto.Bool(true)
			}
			if m.ss {
				md.ServerStreaming = proto.Bool(true)
			}
			sd.Method = append(sd.Method, md)
		}
		api.Service = []*descriptorpb.ServiceDescriptorProto{sd}
		req := &pluginpb.CodeGeneratorRequest{FileToGenerate: []string{api.GetName()}, ProtoFile: []*descriptorpb.FileDescriptorProto{users, orders, api}}
		var desc []string
		for _, m := range methods {
			desc = append(desc, fmt.Sprintf("rpc %s(%s) returns (%s)", m.name, m.in[1:], m.out[1:]))
		}
		in := map[string]any{"file": "api/v1/api.proto (go_package example.com/gen/api/v1;apiv1) importing users/v1/users.proto and orders/v1/orders.proto, which both declare GetRequest, GetResponse, Empty", "service Gateway": desc}
		r.Eval("cross_package_types", fmt.Sprint(vi))
		res, err := runPlugin(plugin, req)
		if err != nil || res.Error != nil || len(res.File) != 1 {
			r.Fail(h.Failure{Key: "codegen/generator-fails", Family: "cross_package_types", What: "the generator failed on a valid file", Input: in, Actual: fmt.Sprint(err, " ", res.GetError())})
			continue
		}
		src := res.File[0].GetContent()
		fset := token.NewFileSet()
		file, perr := parser.ParseFile(fset, "gen.go", src, 0)
		if perr != nil {
			r.Fail(h.Failure{Key: "codegen/does-not-parse", Family: "cross_package_types", What: "generated code does not parse", Input: in, Actual: perr.Error()})
			continue
		}
		// import alias -> import path
		alias := map[string]string{}
		for _, im := range file.Imports {
			path := strings.Trim(im.Path.Value, "\"")
			name := path[strings.LastIndex(path, "/")+1:]
			if im.Name != nil {
				name = im.Name.Name
			}
			alias[name] = path
		}
		goPkg := map[string]string{"users.v1": "example.com/gen/users/v1", "orders.v1": "example.com/gen/orders/v1", "api.v1": "example.com/gen/api/v1"}
		want := func(full string) string { // ".users.v1.GetRequest" -> "example.com/gen/users/v1.GetRequest"
			full = full[1:]
			i := strings.LastIndex(full, ".")
			return goPkg[full[:i]] + "." + full[i+1:]
		}
		// every type argument pair found inside a declaration that belongs to method m
		var problems []string
		checked := 0
		for _, m := range methods {
			wantIn, wantOut := want(m.in), want(m.out)
			ast.Inspect(file, func(n ast.Node) bool {
				var ftype *ast.FuncType
				switch x := n.(type) {
				case *ast.FuncDecl:
					if x.Name.Name == m.name {
						ftype = x.Type
					}
				case *ast.Field:
					if len(x.Names) == 1 && x.Names[0].Name == m.name {
						ftype, _ = x.Type.(*ast.FuncType)
					}
				}
				if ftype == nil {
					return true
				}
				ast.Inspect(ftype, func(k ast.Node) bool {
					ix, ok := k.(*ast.IndexExpr)
					var args []ast.Expr
					var gen string
					if ok {
						args = []ast.Expr{ix.Index}
						if se, ok := ix.X.(*ast.SelectorExpr); ok {
							gen = se.Sel.Name
						}
					} else if il, ok2 := k.(*ast.IndexListExpr); ok2 {
						args = il.Indices
						if se, ok := il.X.(*ast.SelectorExpr); ok {
							gen = se.Sel.Name
						}
					} else {
						return true
					}
					var got []string
					for _, a := range args {
						if se, ok := a.(*ast.SelectorExpr); ok {
							if id, ok := se.X.(*ast.Ident); ok {
								got = append(got, alias[id.Name]+"."+se.Sel.Name)
							}
						} else if id, ok := a.(*ast.Ident); ok {
							got = append(got, goPkg["api.v1"]+"."+id.Name)
						}
					}
					var exp []string
					switch gen {
					case "Request", "ClientStream":
						exp = []string{wantIn}
					case "Response", "ServerStream", "ServerStreamForClient":
						exp = []string{wantOut}
					case "BidiStream", "ClientStreamForClient", "BidiStreamForClient":
						exp = []string{wantIn, wantOut}
					default:
						return true
					}
					checked++
					if fmt.Sprint(got) != fmt.Sprint(exp) {
						problems = append(problems, fmt.Sprintf("%s: connect.%s%v, the descriptor says %v", m.name, gen, got, exp))
					}
					return true
				})
				return true
			})
		}
		r.Sample("cross_package_types", map[string]any{"in": in, "type_arguments_checked": checked})
		if checked == 0 {
			problems = append(problems, "no method signature found in the generated code")
		}
		if len(problems) > 0 {
			r.Fail(h.Failure{Key: "codegen/wrong-message-type", Family: "cross_package_types", What: "a generated signature names another message type than the method's (the package does not type-check: the client and handler constructors name the right ones)", Input: in, Actual: problems})
		}
	}
}
