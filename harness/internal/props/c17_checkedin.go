package props

import (
	"os"
	"path/filepath"
	"strings"

	pingv1 "github.com/bufbuild/connect-go/internal/gen/connect/ping/v1"
	"github.com/bufbuild/connect-go/verifharness/internal/h"
	"google.golang.org/protobuf/reflect/protodesc"
	"google.golang.org/protobuf/types/descriptorpb"
	"google.golang.org/protobuf/types/pluginpb"
)

func stripHeader(s string) string {
	// drop the licence header: everything before the "// Code generated" line
	if i := strings.Index(s, "// Code generated"); i >= 0 {
		return s[i:]
	}
	return s
}

// c17CheckedIn regenerates ping.connect.go from the descriptor embedded in the
// checked-in ping.pb.go and compares it with the checked-in file.
func c17CheckedIn(r *h.Run, plugin, repo string) {
	fd := protodesc.ToFileDescriptorProto(pingv1.File_connect_ping_v1_ping_proto)
	req := &pluginpb.CodeGeneratorRequest{
		FileToGenerate: []string{fd.GetName()},
		ProtoFile:      []*descriptorpb.FileDescriptorProto{fd},
		Parameter:      func() *string { s := "paths=source_relative"; return &s }(),
	}
	res, err := runPlugin(plugin, req)
	r.Eval("checked_in", fd.GetName())
	if err != nil || res.Error != nil || len(res.File) != 1 {
		r.Fail(h.Failure{Key: "codegen/checked-in-regenerate", Family: "checked_in", What: "cannot regenerate ping.connect.go from the embedded descriptor", Actual: err})
		return
	}
	want, rerr := os.ReadFile(filepath.Join(repo, "internal/gen/connect/ping/v1/pingv1connect/ping.connect.go"))
	if rerr != nil {
		r.Fail(h.Failure{Key: "codegen/checked-in-missing", Family: "checked_in", What: rerr.Error()})
		return
	}
	got := stripHeader(res.File[0].GetContent())
	exp := stripHeader(string(want))
	// the first line names the plugin binary (os.Args[0]); normalise it
	// The descriptor embedded in ping.pb.go carries no source info, so doc comments
	// cannot be regenerated; compare the code with every comment line removed.
	norm := func(s string) string {
		var out []string
		for _, line := range strings.Split(s, "\n") {
			if t := strings.TrimSpace(line); strings.HasPrefix(t, "//") {
				continue
			}
			out = append(out, line)
		}
		return strings.Join(out, "\n")
	}
	r.Sample("checked_in", map[string]any{"generated_name": res.File[0].GetName(), "bytes": len(got)})
	if norm(got) != norm(exp) {
		// find the first differing line
		gl, el := strings.Split(norm(got), "\n"), strings.Split(norm(exp), "\n")
		i := 0
		for i < len(gl) && i < len(el) && gl[i] == el[i] {
			i++
		}
		g, e := "", ""
		if i < len(gl) {
			g = gl[i]
		}
		if i < len(el) {
			e = el[i]
		}
		r.Fail(h.Failure{Key: "codegen/checked-in-differs", Family: "checked_in", What: "the checked-in ping.connect.go is not what the generator produces from the checked-in descriptor",
			Input: map[string]any{"first_differing_line": i + 1}, Expected: e, Actual: g})
	}
}
