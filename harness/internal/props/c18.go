package props

import (
	"bytes"
	"context"
	"errors"
	"fmt"
	"google.golang.org/protobuf/reflect/protoreflect"
	"net/http"
	"net/http/httptest"
	"regexp"
	"runtime"
	"strings"
	"sync"
	"sync/atomic"

	connect "github.com/bufbuild/connect-go"
	"github.com/bufbuild/connect-go/verifharness/internal/h"
	"google.golang.org/protobuf/proto"
	"google.golang.org/protobuf/types/known/anypb"
	"google.golang.org/protobuf/types/known/wrapperspb"
)

var codeNumberForm = regexp.MustCompile(`^code_[+-]?[0-9]+$`)

var codeNames = []string{"canceled", "unknown", "invalid_argument", "deadline_exceeded", "not_found",
	"already_exists", "permission_denied", "resource_exhausted", "failed_precondition", "aborted",
	"out_of_range", "unimplemented", "internal", "unavailable", "data_loss", "unauthenticated"}

func safely(f func()) (panicked any) {
	defer func() { panicked = recover() }()
	f()
	return nil
}

// C18 — small wire codecs.
func C18(r *h.Run) {
	r.Model("c18case", "c18_ok")
	c18FallbackMessages(r)
	r.Sum.Rule = "codes: 0..299, every 2^k-1/2^k/2^k+1, decimal digit-count boundaries, random (thorough: all 2^32 through the Go oracle); " +
		"code text: names, single-character edits of names, code_<numeric variants>, random bytes; percent codec: all 1-byte strings and all 2-byte strings (oracle), " +
		"a model sample of the pairs, malformed escapes, random long strings; binary headers: all strings of length <= 2 (oracle), 4-symbol strings over a 10-symbol alphabet incl '=', CR/LF, padded forms; " +
		"code->HTTP through real ServeHTTP. distinct = distinct (family,input)"
	rng := r.Rng

	// ---------- code text ----------
	codeOracle := func(c uint32) bool {
		code := connect.Code(c)
		text, err := code.MarshalText()
		if err != nil {
			return false
		}
		var back connect.Code
		if err := back.UnmarshalText(text); err != nil {
			return false
		}
		return back == code
	}
	var codes []uint32
	for c := uint32(0); c < 300; c++ {
		codes = append(codes, c)
	}
	for k := 0; k < 32; k++ {
		p := uint32(1) << k
		codes = append(codes, p-1, p, p+1)
	}
	pow := uint32(1)
	for k := 0; k < 9; k++ {
		pow *= 10
		codes = append(codes, pow-1, pow, pow+1)
	}
	codes = append(codes, 4294967295, 4294967294)
	cr := rng.Fork("codes")
	for i := 0; i < r.N(300, 3000); i++ {
		codes = append(codes, uint32(cr.U64()))
	}
	for _, c := range codes {
		var s string
		if p := safely(func() { s = connect.Code(c).String() }); p != nil {
			r.Fail(h.Failure{Key: "code-string/panic", Family: "code_string", What: fmt.Sprint("panic: ", p), Input: c})
			continue
		}
		r.Eval("code_string", fmt.Sprint(c))
		r.Sample("code_string", map[string]any{"code": c, "text": s})
		r.Case("code_string", fmt.Sprintf("CodeStr %d %s", c, h.CoqStr(s)), map[string]any{"code": c, "impl": s})
		if !codeOracle(c) {
			r.Fail(h.Failure{Key: "code-text/roundtrip", Family: "code_string", What: "UnmarshalText(MarshalText(c)) != c", Input: c, Actual: s})
		}
	}
	if r.Thorough() {
		// all 2^32 code values through the direct oracle
		var bad atomic.Int64
		var firstBad atomic.Uint64
		firstBad.Store(1 << 40)
		workers := runtime.NumCPU()
		var wg sync.WaitGroup
		chunk := uint64(1<<32) / uint64(workers)
		for w := 0; w < workers; w++ {
			wg.Add(1)
			go func(w int) {
				defer wg.Done()
				lo, hi := uint64(w)*chunk, uint64(w+1)*chunk
				if w == workers-1 {
					hi = 1 << 32
				}
				for c := lo; c < hi; c++ {
					if !codeOracle(uint32(c)) {
						bad.Add(1)
						for {
							old := firstBad.Load()
							if c >= old || firstBad.CompareAndSwap(old, c) {
								break
							}
						}
					}
				}
			}(w)
		}
		wg.Wait()
		r.Sum.Evaluations += 1 << 32
		r.Sum.Distribution["code_roundtrip_exhaustive"] = 1 << 32
		r.Sum.Exhaustive["all 2^32 code values (Go oracle)"] = true
		if bad.Load() > 0 {
			r.Fail(h.Failure{Key: "code-text/roundtrip", Family: "code_roundtrip_exhaustive",
				What: fmt.Sprintf("%d of 2^32 code values do not round-trip", bad.Load()), Input: firstBad.Load()})
		}
	}

	// code parse inputs
	var texts []string
	texts = append(texts, codeNames...)
	for _, n := range codeNames {
		texts = append(texts, strings.ToUpper(n), n+" ", " "+n, n[:len(n)-1], n+"x", strings.Replace(n, "_", "-", 1))
	}
	for _, n := range []string{"0", "1", "16", "17", "5", "-1", "+5", "-0", "+0", "00017", "0017", "017", "4294967295", "4294967296",
		"4294967297", "4294967313", "9223372036854775807", "9223372036854775808", "-9223372036854775808", "-9223372036854775809",
		"18446744073709551616", "99999999999999999999999", "", "x", "1x", "x1", "1_000", "0x11", " 17", "17 ", "1.0", "1e3", "٣", "-", "+", "--1", "+-1", "１７"} {
		texts = append(texts, "code_"+n)
	}
	texts = append(texts, "", "code", "code_", "Code_17", "CODE_17", "code-17", "codes_17", "code__17", "ok", "OK", "0", "17")
	// every spelling at edit distance one from a defined name (a dropped, doubled or
	// swapped letter: "cancelled"), and the spellings other systems use for the same codes
	for _, n := range codeNames {
		for i := 0; i < len(n); i++ {
			texts = append(texts, n[:i]+n[i+1:], n[:i+1]+n[i:])
			if i+1 < len(n) {
				texts = append(texts, n[:i]+string(n[i+1])+string(n[i])+n[i+2:])
			}
		}
		camel := ""
		for _, part := range strings.Split(n, "_") {
			camel += strings.ToUpper(part[:1]) + part[1:]
		}
		texts = append(texts, camel, strings.ToLower(camel[:1])+camel[1:], strings.ReplaceAll(n, "_", " "), strings.ReplaceAll(n, "_", ""), "code_"+n, strings.ToUpper(n[:1])+n[1:])
	}
	texts = append(texts, "cancelled", "CANCELLED", "Cancelled", "ok", "OK", "Ok", "success", "none", "error", "failed-precondition", "unauthorised", "unauthorized", "not-found", "notfound", "timeout", "deadline")
	tr := rng.Fork("codetext")
	for i := 0; i < r.N(200, 2000); i++ {
		switch tr.Intn(3) {
		case 0:
			texts = append(texts, string(tr.Bytes(tr.Intn(12))))
		case 1:
			texts = append(texts, "code_"+string(tr.Bytes(tr.Intn(6))))
		default:
			texts = append(texts, fmt.Sprintf("code_%d", int64(tr.U64())>>uint(tr.Intn(64))))
		}
	}
	for _, s := range texts {
		var code connect.Code
		var err error
		if p := safely(func() { err = code.UnmarshalText([]byte(s)) }); p != nil {
			r.Fail(h.Failure{Key: "code-parse/panic", Family: "code_parse", What: fmt.Sprint("panic: ", p), Input: h.Hex([]byte(s))})
			continue
		}
		r.Eval("code_parse", s)
		r.Sample("code_parse", map[string]any{"text": s, "accepted": err == nil, "code": uint32(code)})
		r.Case("code_parse", fmt.Sprintf("CodeParse %s %s", h.CoqStr(s), h.CoqOptN(uint64(code), err == nil)),
			map[string]any{"text_hex": h.Hex([]byte(s)), "text": s, "accepted": err == nil, "code": uint32(code)})
		if err == nil {
			isName := false
			for _, n := range codeNames {
				if n == s {
					isName = true
				}
			}
			if !isName && !codeNumberForm.MatchString(s) {
				r.Fail(h.Failure{Key: "code-parse/accepts-garbage", Family: "code_parse",
					What: "text that is neither a defined name nor code_<number> was accepted", Input: s, Actual: uint32(code)})
			}
		}
	}

	// ---------- percent codec ----------
	pctOracle := func(s string) string {
		var enc, dec string
		if p := safely(func() { enc = connect.VerifGRPCPercentEncode(s); dec = connect.VerifGRPCPercentDecode(enc) }); p != nil {
			return fmt.Sprint("panic: ", p)
		}
		if dec != s {
			return "decode(encode(s)) != s"
		}
		for i := 0; i < len(enc); i++ {
			if enc[i] < 0x20 || enc[i] > 0x7e {
				return "encoded form contains a non-printable byte"
			}
			if enc[i] == '%' {
				if i+2 >= len(enc) || !isUpperHex(enc[i+1]) || !isUpperHex(enc[i+2]) {
					return "encoded form contains an unescaped '%'"
				}
			}
		}
		return ""
	}
	pctCase := func(s string, model bool) {
		enc := connect.VerifGRPCPercentEncode(s)
		r.Eval("percent_encode", s)
		if why := pctOracle(s); why != "" {
			r.Fail(h.Failure{Key: "percent/roundtrip", Family: "percent_encode", What: why, Input: h.Hex([]byte(s)), Actual: enc})
		}
		if model {
			r.Sample("percent_encode", map[string]any{"in_hex": h.Hex([]byte(s)), "out": enc})
			r.Case("percent_encode", fmt.Sprintf("PctEnc %s %s", h.CoqStr(s), h.CoqStr(enc)),
				map[string]any{"in_hex": h.Hex([]byte(s)), "impl_out": enc})
		}
	}
	decCase := func(s string, model bool) {
		var dec string
		if p := safely(func() { dec = connect.VerifGRPCPercentDecode(s) }); p != nil {
			r.Fail(h.Failure{Key: "percent-decode/panic", Family: "percent_decode", What: fmt.Sprint("panic: ", p), Input: h.Hex([]byte(s))})
			return
		}
		r.Eval("percent_decode", s)
		if model {
			r.Sample("percent_decode", map[string]any{"in": s, "out_hex": h.Hex([]byte(dec))})
			r.Case("percent_decode", fmt.Sprintf("PctDec %s %s", h.CoqStr(s), h.CoqStr(dec)),
				map[string]any{"in_hex": h.Hex([]byte(s)), "impl_out_hex": h.Hex([]byte(dec))})
		}
	}
	pr := rng.Fork("percent")
	pctCase("", true)
	decCase("", true)
	// long inputs that are mostly '%' (more escapes "promised" than bytes present), around the
	// sizes of the pooled buffers
	for _, n := range []int{2, 3, 100, 511, 512, 513, 514, 1024, 1025, 5000} {
		decCase(strings.Repeat("%", n), n <= 100)
		decCase(strings.Repeat("%%a", n/3+1), false)
		decCase(strings.Repeat("%4", n/2+1), false)
		decCase(strings.Repeat("a", n)+strings.Repeat("%", n), false)
	}
	for a := 0; a < 256; a++ {
		pctCase(string([]byte{byte(a)}), true)
		decCase(string([]byte{byte(a)}), true)
	}
	pairSample := r.N(40, 4) // model 1 pair in N
	for a := 0; a < 256; a++ {
		for b := 0; b < 256; b++ {
			s := string([]byte{byte(a), byte(b)})
			m := pr.Intn(pairSample) == 0
			pctCase(s, m)
			decCase(s, m && pr.Intn(4) == 0)
		}
	}
	r.Sum.Exhaustive["percent codec: all byte strings of length <= 2 (Go oracle)"] = true
	hexish := []byte("%%%%0123456789abcdefABCDEFgGzZ %~\x00\xff\x7f\x80")
	for i := 0; i < r.N(600, 6000); i++ {
		n := 1 + pr.Intn(8)
		b := make([]byte, n)
		for j := range b {
			b[j] = hexish[pr.Intn(len(hexish))]
		}
		decCase(string(b), true)
		pctCase(string(b), i%4 == 0)
	}
	if r.Thorough() {
		// all length-3 strings over a 24-symbol alphabet as decoder input and encoder input
		alpha := []byte("%09afAFgG~ \x1f\x7f\x80\xff\x00:zZ/+=\n")
		for _, a := range alpha {
			for _, b := range alpha {
				for _, c := range alpha {
					s := string([]byte{a, b, c})
					decCase(s, true)
					pctCase(s, false)
				}
			}
		}
		r.Sum.Exhaustive["percent codec: all length-3 strings over a 24-symbol alphabet"] = true
	}
	for _, s := range []string{"%", "%4", "%41", "%4g", "%zz", "%%41", "%%%", "a%", "a%4", "%e4%bd%a0", "%E4%BD%A0", "100%", "100%2", "%2", "%25", "%2525", "%+1", "%-1", "% 1", "%1 ", "%0x", "%_1"} {
		decCase(s, true)
	}
	for i := 0; i < r.N(150, 1500); i++ {
		n := pr.Intn(200)
		if i%10 == 0 {
			n = 500 + pr.Intn(3000)
		}
		b := pr.Bytes(n)
		if i%3 == 0 { // mostly-ASCII text with a few specials
			for j := range b {
				b[j] = 0x20 + b[j]%0x5f
			}
		}
		pctCase(string(b), n < 300)
		decCase(string(b), n < 300)
	}
	for _, s := range []string{"héllo wörld", "你好", "emoji \U0001F600", "tab\tnewline\ncr\r", "nul\x00byte", "50% off", " leading and trailing ", "\xff\xfe invalid utf8 \xc3"} {
		pctCase(s, true)
	}

	// ---------- binary headers ----------
	binOracle := func(b []byte) string {
		var enc string
		var dec, dec2 []byte
		var err, err2 error
		if p := safely(func() {
			enc = connect.EncodeBinaryHeader(b)
			dec, err = connect.DecodeBinaryHeader(enc)
			padded := enc
			for len(padded)%4 != 0 {
				padded += "="
			}
			dec2, err2 = connect.DecodeBinaryHeader(padded)
		}); p != nil {
			return fmt.Sprint("panic: ", p)
		}
		if err != nil || !bytes.Equal(dec, b) {
			return "Decode(Encode(b)) != b"
		}
		if err2 != nil || !bytes.Equal(dec2, b) {
			return "Decode(pad(Encode(b))) != b"
		}
		if strings.ContainsAny(enc, "=") {
			return "Encode emitted padding"
		}
		return ""
	}
	binEnc := func(b []byte, model bool) {
		r.Eval("bin_encode", string(b))
		if why := binOracle(b); why != "" {
			r.Fail(h.Failure{Key: "bin/roundtrip", Family: "bin_encode", What: why, Input: h.Hex(b)})
		}
		if model {
			enc := connect.EncodeBinaryHeader(b)
			r.Sample("bin_encode", map[string]any{"in_hex": h.Hex(b), "out": enc})
			r.Case("bin_encode", fmt.Sprintf("BinEnc %s %s", h.CoqBytes(b), h.CoqStr(enc)), map[string]any{"in_hex": h.Hex(b), "impl_out": enc})
		}
	}
	binDec := func(s string, model bool) {
		var dec []byte
		var err error
		if p := safely(func() { dec, err = connect.DecodeBinaryHeader(s) }); p != nil {
			r.Fail(h.Failure{Key: "bin-decode/panic", Family: "bin_decode", What: fmt.Sprint("panic: ", p), Input: h.Hex([]byte(s))})
			return
		}
		r.Eval("bin_decode", s)
		if model {
			r.Sample("bin_decode", map[string]any{"in": s, "ok": err == nil, "out_hex": h.Hex(dec)})
			r.Case("bin_decode", fmt.Sprintf("BinDec %s %s", h.CoqStr(s), h.CoqOptBytes(dec, err == nil)),
				map[string]any{"in_hex": h.Hex([]byte(s)), "impl_ok": err == nil, "impl_out_hex": h.Hex(dec)})
		}
	}
	br := rng.Fork("bin")
	binEnc(nil, true)
	for a := 0; a < 256; a++ {
		binEnc([]byte{byte(a)}, true)
	}
	for a := 0; a < 256; a++ {
		for b := 0; b < 256; b++ {
			binEnc([]byte{byte(a), byte(b)}, br.Intn(r.N(60, 6)) == 0)
		}
	}
	r.Sum.Exhaustive["binary headers: all byte strings of length <= 2 (Go oracle)"] = true
	for i := 0; i < r.N(150, 1500); i++ {
		binEnc(br.Bytes(3+br.Intn(60)), true)
	}
	sym := []byte("AQgw+/=9 \n")
	for a := 0; a < len(sym); a++ {
		for b := 0; b < len(sym); b++ {
			for c := 0; c < len(sym); c++ {
				for d := 0; d < len(sym); d++ {
					s := string([]byte{sym[a], sym[b], sym[c], sym[d]})
					binDec(s, br.Intn(r.N(10, 1)) == 0)
				}
			}
		}
	}
	r.Sum.Exhaustive["binary header decoder: all 4-symbol inputs over {A,Q,g,w,+,/,=,9,space,LF}"] = true
	for _, s := range []string{"", "A", "AA", "AAA", "AAAA", "AA==", "AAA=", "AA=", "A===", "====", "=", "==", "AA==AA==", "AAAAAA==", "AAAAAAA=", "AAAA=",
		"AA\n==", "A\nA\r\n==", "AAA\n", "\n", "\r\n\r\n", "AA= =", "AA==\n", "AA==x", "aGVsbG8", "aGVsbG8=", "aGVsbG8==", "aGVsbG8gd29ybGQ", "aGVsbG8gd29ybGQ=",
		"-_-_", "AA-A", "AA_A", "Zm9v,YmFy", "Zm9v YmFy", "Zh==", "Zh", "Zm9=", "Zm9"} {
		binDec(s, true)
	}
	for i := 0; i < r.N(300, 3000); i++ {
		n := br.Intn(14)
		b := make([]byte, n)
		alpha := []byte("ABCDwxyz0189+/=\n-_ ")
		for j := range b {
			b[j] = alpha[br.Intn(len(alpha))]
		}
		binDec(string(b), true)
	}

	// ---------- code -> HTTP status, Grpc-Message: through real ServeHTTP ----------
	var retErr error
	handler := connect.NewUnaryHandler("/verif.Svc/Do",
		func(_ context.Context, _ *connect.Request[wrapperspb.BytesValue]) (*connect.Response[wrapperspb.BytesValue], error) {
			return nil, retErr
		})
	body, _ := proto.Marshal(&wrapperspb.BytesValue{Value: []byte("x")})
	hc := rng.Fork("http")
	var hcodes []uint32
	for c := uint32(0); c <= 20; c++ {
		hcodes = append(hcodes, c)
	}
	for i := 0; i < r.N(40, 400); i++ {
		hcodes = append(hcodes, uint32(hc.U64()))
	}
	for ci, c := range hcodes {
		ce := connect.NewError(connect.Code(c), errors.New("m"))
		shape := "plain"
		switch ci % 4 {
		case 1:
			// a detail of a type linked into neither side (a gateway relaying upstream details): the
			// JSON body cannot be produced; the status line is still the code's
			ce.AddDetail(&anypb.Any{TypeUrl: "type.googleapis.com/acme.upstream.v1.Reason", Value: []byte{0x0a, 0x03, 'a', 'b', 'c'}})
			shape = "with a detail of a message type that is not linked in"
		case 2:
			ce.AddDetail(&anypb.Any{TypeUrl: "type.googleapis.com/google.protobuf.BytesValue", Value: []byte{0xff, 0xff}})
			shape = "with a detail whose bytes are not a valid message of its type"
		}
		retErr = ce
		req := httptest.NewRequest(http.MethodPost, "/verif.Svc/Do", bytes.NewReader(body))
		req.Header.Set("Content-Type", "application/proto")
		rec := httptest.NewRecorder()
		if p := safely(func() { handler.ServeHTTP(rec, req) }); p != nil {
			r.Fail(h.Failure{Key: "code-http/panic", Family: "code_http", What: fmt.Sprint("panic: ", p), Input: c})
			continue
		}
		r.Eval("code_http", fmt.Sprint(c, shape))
		r.Sample("code_http", map[string]any{"code": c, "error": shape, "status": rec.Code})
		r.Case("code_http", fmt.Sprintf("CodeHTTP %d %d", c, rec.Code), map[string]any{"code": c, "error": shape, "impl_status": rec.Code})
		if rec.Code < 400 || rec.Code > 599 {
			r.Fail(h.Failure{Key: "code-http/not-4xx5xx", Family: "code_http", What: "error code mapped to a non-4xx/5xx status", Input: map[string]any{"code": c, "error": shape}, Actual: rec.Code})
		}
	}
	// Grpc-Message carried on a real gRPC response (recorder keeps raw header values)
	for i := 0; i < r.N(60, 600); i++ {
		msg := h.RandUTF8(hc, hc.Intn(24)) // error messages are UTF-8 text (C02)
		if i%2 == 0 {
			msg = "error: " + msg + " 100%"
		}
		retErr = connect.NewError(connect.CodeInternal, errors.New(msg))
		env := append([]byte{0, 0, 0, 0, byte(len(body))}, body...)
		req := httptest.NewRequest(http.MethodPost, "/verif.Svc/Do", bytes.NewReader(env))
		req.Header.Set("Content-Type", "application/grpc")
		rec := httptest.NewRecorder()
		if p := safely(func() { handler.ServeHTTP(rec, req) }); p != nil {
			r.Fail(h.Failure{Key: "grpc-message/panic", Family: "grpc_message", What: fmt.Sprint("panic: ", p), Input: h.Hex([]byte(msg))})
			continue
		}
		got := rec.Header().Get(http.TrailerPrefix + "Grpc-Message")
		r.Eval("grpc_message", msg)
		r.Sample("grpc_message", map[string]any{"msg_hex": h.Hex([]byte(msg)), "grpc_message": got})
		r.Case("grpc_message", fmt.Sprintf("PctEnc %s %s", h.CoqStr(msg), h.CoqStr(got)), map[string]any{"msg_hex": h.Hex([]byte(msg)), "impl_header": got})
		if connect.VerifGRPCPercentDecode(got) != msg {
			r.Fail(h.Failure{Key: "grpc-message/roundtrip", Family: "grpc_message", What: "Grpc-Message does not decode to the handler's message", Input: h.Hex([]byte(msg)), Actual: got})
		}
	}
}

func isUpperHex(c byte) bool { return (c >= '0' && c <= '9') || (c >= 'A' && c <= 'F') }

// badDetail is an error detail that cannot be turned into an Any (its proto3 string field is
// not valid UTF-8): the gRPC handler then reports "internal" with a message of its own making,
// which quotes the detail's text.
type badDetail struct{ *wrapperspb.StringValue }

func (d badDetail) MessageName() protoreflect.FullName {
	return d.ProtoReflect().Descriptor().FullName()
}
func (d badDetail) UnmarshalTo(proto.Message) error { return errors.New("not needed") }

// c18FallbackMessages: whatever message the handler decides to send — the application's, or one
// of the library's own fallbacks — the grpc-message on the wire is printable ASCII and
// percent-decodes to that message.
func c18FallbackMessages(r *h.Run) {
	marks := "caf\u00e9 100%41 done"
	for _, proto_ := range []string{"grpc", "grpcweb"} {
		for _, kind := range []string{"unary", "server"} {
			retErr := connect.NewError(connect.CodeNotFound, errors.New("no such thing"))
			retErr.AddDetail(badDetail{&wrapperspb.StringValue{Value: marks + " \xff"}})
			cfg := envCfg{Proto: proto_}
			var handler *connect.Handler
			if kind == "unary" {
				handler = connect.NewUnaryHandler("/verif.Svc/M", func(context.Context, *connect.Request[h.Raw]) (*connect.Response[h.Raw], error) {
					return nil, retErr
				}, connect.WithCodec(h.ToyCodec{}))
			} else {
				handler = connect.NewServerStreamHandler("/verif.Svc/M", func(_ context.Context, _ *connect.Request[h.Raw], s *connect.ServerStream[h.Raw]) error {
					_ = s.Send(&h.Raw{B: []byte("m")})
					return retErr
				}, connect.WithCodec(h.ToyCodec{}))
			}
			req := httptest.NewRequest(http.MethodPost, "/verif.Svc/M", bytes.NewReader(h.Frame(0, []byte("q"))))
			req.ProtoMajor, req.ProtoMinor = 2, 0
			req.Header.Set("Content-Type", cfg.contentType(false))
			rec := httptest.NewRecorder()
			p := safely(func() { handler.ServeHTTP(rec, req) })
			in := map[string]any{"proto": proto_, "kind": kind, "handler_error": "not_found with a detail that cannot be converted to an Any (invalid UTF-8 in its string field); its text holds a non-ASCII rune and '%41'"}
			r.Eval("grpc_fallback_message", fmt.Sprint(proto_, kind))
			if p != nil {
				r.Fail(h.Failure{Key: "percent/panic", Family: "grpc_fallback_message", What: fmt.Sprint("panic: ", p), Input: in})
				continue
			}
			// the raw grpc-message as written
			raw, found := "", false
			for _, k := range []string{http.TrailerPrefix + "Grpc-Message", "Grpc-Message"} {
				if vs, ok := rec.Header()[k]; ok && len(vs) > 0 {
					raw, found = vs[0], true
				}
			}
			if !found {
				body := rec.Body.Bytes()
				for len(body) >= 5 {
					n := int(uint32(body[1])<<24 | uint32(body[2])<<16 | uint32(body[3])<<8 | uint32(body[4]))
					if 5+n > len(body) {
						break
					}
					if body[0]&0x80 != 0 {
						for _, line := range strings.Split(string(body[5:5+n]), "\r\n") {
							if kv := strings.SplitN(line, ": ", 2); len(kv) == 2 && strings.EqualFold(kv[0], "grpc-message") {
								raw, found = kv[1], true
							}
						}
					}
					body = body[5+n:]
				}
			}
			r.Sample("grpc_fallback_message", map[string]any{"in": in, "grpc_message_on_the_wire": raw})
			if !found {
				r.Fail(h.Failure{Key: "percent/no-message", Family: "grpc_fallback_message", What: "no grpc-message found in the response", Input: in})
				continue
			}
			for i := 0; i < len(raw); i++ {
				if c := raw[i]; c < ' ' || c > '~' {
					r.Fail(h.Failure{Key: "percent/roundtrip", Family: "grpc_fallback_message", What: fmt.Sprintf("the grpc-message on the wire contains the non-printable byte %#02x", c), Input: in, Actual: h.Hex([]byte(raw))})
					break
				}
			}
			if dec := connect.VerifGRPCPercentDecode(raw); !strings.Contains(dec, "caf\u00e9 100%41 done") {
				r.Fail(h.Failure{Key: "percent/roundtrip", Family: "grpc_fallback_message", What: "the grpc-message on the wire does not decode to the message the handler sent (it quotes the detail's text)", Input: in, Expected: "... caf\u00e9 100%41 done ...", Actual: dec})
			}
		}
	}
}
