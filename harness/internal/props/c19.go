package props

import (
	"bytes"
	"compress/gzip"
	"context"
	"errors"
	"fmt"
	"net/http"
	"net/http/httptest"
	"sync/atomic"
	"time"

	connect "github.com/bufbuild/connect-go"
	"github.com/bufbuild/connect-go/verifharness/internal/h"
)

type structPanic struct{ A, B int }

type passIcpt struct {
	log *[]string
	id  int
}

func (p passIcpt) WrapUnary(next connect.UnaryFunc) connect.UnaryFunc {
	return func(ctx context.Context, req connect.AnyRequest) (connect.AnyResponse, error) {
		*p.log = append(*p.log, fmt.Sprint("in", p.id))
		return next(ctx, req)
	}
}
func (p passIcpt) WrapStreamingClient(next connect.StreamingClientFunc) connect.StreamingClientFunc {
	return next
}
func (p passIcpt) WrapStreamingHandler(next connect.StreamingHandlerFunc) connect.StreamingHandlerFunc {
	return func(ctx context.Context, conn connect.StreamingHandlerConn) error {
		*p.log = append(*p.log, fmt.Sprint("in", p.id))
		return next(ctx, conn)
	}
}

// C19 — WithRecover.
func C19(r *h.Run) {
	r.Model("c19case", "c19_ok")
	r.Sum.Rule = "panic values {nil, error, string, struct, http.ErrAbortHandler, an error wrapping it, an error whose Is matches it, none} x 4 RPC kinds x 3 protocols x panic point {before first receive, between sends, after last send} x position of the recover interceptor among 0..2 other interceptors; observed: calls and arguments of the recovery function, the error the client sees, propagation of the abort sentinel out of ServeHTTP. distinct = distinct tuple"
	protos := []string{"connect", "grpc", "grpcweb"}
	kinds := []string{"unary", "client", "server", "bidi"}
	points := []string{"before", "between", "after"}
	type pv struct {
		class int // 0 nil, 1 abort, >=2 other; -1 no panic
		val   any
	}
	errVal := errors.New("panic-error")
	// class -1: returns normally; class -2: returns an ordinary error without panicking
	// values that merely resemble the abort sentinel: an error wrapping it, and an
	// error type whose Is method matches it; net/http recognises the sentinel by
	// identity only, so these are ordinary panic values
	wrappedAbort := fmt.Errorf("wrapped: %w", http.ErrAbortHandler)
	vals := []pv{{-1, nil}, {-2, nil}, {0, nil}, {1, http.ErrAbortHandler}, {2, errVal}, {3, "panic-string"}, {4, structPanic{1, 2}}, {6, wrappedAbort}, {7, abortLookalike{}},
		// values that cannot be compared or hashed (using one as a map key, or comparing two of
		// them with ==, panics in its turn): a slice, a map, a struct holding a slice
		{5, []int{1, 2}}, {5, map[string]int{"a": 1}}, {5, unhashablePanic{S: []int{1}}}}
	handlerErr := connect.NewError(connect.CodeAlreadyExists, errors.New("handler-error"))
	for _, proto := range protos {
		for _, kind := range kinds {
			for _, point := range points {
				for vi, v := range vals {
					for pos := 0; pos < 3; pos++ { // recover interceptor position: outer = pos, inner = 2-pos (or fewer)
						total := (vi + pos) % 3 // number of other interceptors: 0..2
						outer := pos
						if outer > total {
							outer = total
						}
						inner := total - outer
						var handleCalls []int
						var log []string
						plainHandle := (vi+pos+len(kind))%2 == 1
						wantCode := "data_loss"
						if plainHandle {
							wantCode = "unknown"
						}
						handle := func(_ context.Context, _ connect.Spec, _ http.Header, rv any) error {
							cls := 5
							switch x := rv.(type) {
							case nil:
								cls = 0
							case error:
								if x == http.ErrAbortHandler {
									cls = 1
								} else if x == errVal {
									cls = 2
								} else if x == wrappedAbort {
									cls = 6
								} else if _, ok := x.(abortLookalike); ok {
									cls = 7
								}
							case string:
								cls = 3
							case structPanic:
								cls = 4
							}
							handleCalls = append(handleCalls, cls)
							if plainHandle {
								// an uncoded error: the client must see it as it would see the same
								// error returned by a handler that did not panic (code unknown)
								return fmt.Errorf("recovered-%d", cls)
							}
							return connect.NewError(connect.CodeDataLoss, fmt.Errorf("recovered-%d", cls))
						}
						var hopts []connect.HandlerOption
						hopts = append(hopts, connect.WithCodec(h.ToyCodec{}))
						for i := 0; i < outer; i++ {
							hopts = append(hopts, connect.WithInterceptors(passIcpt{&log, i}))
						}
						hopts = append(hopts, connect.WithRecover(handle))
						withNil := (vi+pos+len(point))%3 == 0 // nil interceptors (an optional one, switched off) are skipped
						for i := 0; i < inner; i++ {
							if withNil {
								hopts = append(hopts, connect.WithInterceptors(nil, passIcpt{&log, 10 + i}, nil))
								continue
							}
							hopts = append(hopts, connect.WithInterceptors(passIcpt{&log, 10 + i}))
						}
						if withNil && inner == 0 {
							hopts = append(hopts, connect.WithInterceptors(nil))
						}
						// in a subset: the request announces a short timeout and the handler panics
						// only after its context has ended
						afterCtx := v.class >= 0 && v.class != 1 && (vi+pos+len(point)+len(proto))%6 == 0
						waitCtx := func(ctx context.Context) {
							if afterCtx {
								select {
								case <-ctx.Done():
								case <-time.After(2 * time.Second):
								}
							}
						}
						doPanic := func(at string) {
							if at == point && v.class >= 0 {
								panic(v.val)
							}
						}
						var handler *connect.Handler
						switch kind {
						case "unary":
							handler = connect.NewUnaryHandler("/verif.Svc/M", func(ctx context.Context, req *connect.Request[h.Raw]) (*connect.Response[h.Raw], error) {
								waitCtx(ctx)
								doPanic("before")
								doPanic("between")
								doPanic("after")
								if v.class == -2 {
									return nil, handlerErr
								}
								return connect.NewResponse(&h.Raw{B: []byte("ok")}), nil
							}, hopts...)
						case "client":
							handler = connect.NewClientStreamHandler("/verif.Svc/M", func(ctx context.Context, s *connect.ClientStream[h.Raw]) (*connect.Response[h.Raw], error) {
								waitCtx(ctx)
								doPanic("before")
								for s.Receive() {
								}
								doPanic("between")
								doPanic("after")
								if v.class == -2 {
									return nil, handlerErr
								}
								return connect.NewResponse(&h.Raw{B: []byte("ok")}), nil
							}, hopts...)
						case "server":
							handler = connect.NewServerStreamHandler("/verif.Svc/M", func(ctx context.Context, _ *connect.Request[h.Raw], s *connect.ServerStream[h.Raw]) error {
								waitCtx(ctx)
								doPanic("before")
								_ = s.Send(&h.Raw{B: []byte("a")})
								doPanic("between")
								_ = s.Send(&h.Raw{B: []byte("b")})
								doPanic("after")
								if v.class == -2 {
									return handlerErr
								}
								return nil
							}, hopts...)
						default:
							handler = connect.NewBidiStreamHandler("/verif.Svc/M", func(ctx context.Context, s *connect.BidiStream[h.Raw, h.Raw]) error {
								waitCtx(ctx)
								doPanic("before")
								_, _ = s.Receive()
								_ = s.Send(&h.Raw{B: []byte("a")})
								doPanic("between")
								_ = s.Send(&h.Raw{B: []byte("b")})
								doPanic("after")
								if v.class == -2 {
									return handlerErr
								}
								return nil
							}, hopts...)
						}
						cfg := envCfg{Proto: proto}
						body := h.Frame(0, []byte("q"))
						ct := cfg.contentType(false)
						if kind == "unary" && proto == "connect" {
							body, ct = []byte("q"), cfg.contentType(true)
						}
						req := httptest.NewRequest(http.MethodPost, "/verif.Svc/M", bytes.NewReader(body))
						req.ProtoMajor, req.ProtoMinor = 2, 0
						req.Header.Set("Content-Type", ct)
						if afterCtx {
							if proto == "connect" {
								req.Header.Set("Connect-Timeout-Ms", "25")
							} else {
								req.Header.Set("Grpc-Timeout", "25m")
							}
						}
						rec := httptest.NewRecorder()
						propagated := safely(func() { handler.ServeHTTP(rec, req) })
						in := map[string]any{"proto": proto, "kind": kind, "panic_point": point, "panic_class": v.class, "outer": outer, "inner": inner, "recovery_function_returns": wantCode, "panics_after_its_context_ended": afterCtx, "nil_interceptors_declared_after_WithRecover": withNil}
						r.Eval("recover", fmt.Sprint(in))
						obs := "RNormal"
						// what the peer sees
						peerCode, peerMsg := peerError(proto, kind, rec)
						switch {
						case propagated != nil:
							obs = "RAbortPropagated"
						case peerCode != "" && peerMsg == "handler-error":
							obs = "(RHandled 100)" // the handler's own error, class 100
						case peerCode != "":
							cls := -1
							fmt.Sscanf(peerMsg, "recovered-%d", &cls)
							obs = fmt.Sprintf("(RHandled %d)", cls)
						}
						calls := make([]string, len(handleCalls))
						for i, c := range handleCalls {
							calls[i] = fmt.Sprint(c)
						}
						panicArg := "None"
						if v.class >= 0 {
							panicArg = fmt.Sprintf("(Some %d)", v.class)
						} else if v.class == -2 {
							panicArg = "(Some 100)" // returns an error of class 100 without panicking
						}
						r.Sample("recover", map[string]any{"in": in, "handle_calls": handleCalls, "peer_code": peerCode, "peer_message": peerMsg, "propagated": fmt.Sprint(propagated)})
						r.Case("recover", fmt.Sprintf("RecCase %d %d %s %s %s", outer, inner, panicArg, h.CoqList(calls), obs),
							map[string]any{"in": in, "impl_handle_calls": handleCalls, "impl_peer_code": peerCode, "impl_peer_message": peerMsg, "impl_propagated": fmt.Sprint(propagated)})
						// ---- direct oracle ----
						switch {
						case v.class == -2:
							if len(handleCalls) != 0 || propagated != nil || peerCode != "already_exists" || peerMsg != "handler-error" {
								r.Fail(h.Failure{Key: "recover/no-panic-affected", Family: "recover", What: "a call that returns an error without panicking was affected by WithRecover (recovery function called, or the handler's error replaced)", Input: in, Actual: fmt.Sprint(handleCalls, " ", peerCode, ": ", peerMsg)})
							}
						case v.class == -1:
							if len(handleCalls) != 0 || peerCode != "" || propagated != nil {
								r.Fail(h.Failure{Key: "recover/no-panic-affected", Family: "recover", What: "a call that does not panic was affected by WithRecover", Input: in, Actual: fmt.Sprint(handleCalls, peerCode, propagated)})
							}
						case v.class == 1:
							if propagated != http.ErrAbortHandler || len(handleCalls) != 0 {
								r.Fail(h.Failure{Key: "recover/abort-not-reraised", Family: "recover", What: "http.ErrAbortHandler was not re-raised untouched (or the recovery function was called)", Input: in, Actual: fmt.Sprint(handleCalls, propagated)})
							}
						default:
							if propagated != nil {
								r.Fail(h.Failure{Key: "recover/panic-escaped", Family: "recover", What: "the panic escaped ServeHTTP", Input: in, Actual: fmt.Sprint(propagated)})
							} else if len(handleCalls) != 1 || handleCalls[0] != v.class {
								r.Fail(h.Failure{Key: "recover/handle-calls", Family: "recover", What: "the recovery function was not called exactly once with the recovered value", Input: in, Actual: handleCalls})
							} else if peerCode != wantCode || peerMsg != fmt.Sprintf("recovered-%d", v.class) {
								r.Fail(h.Failure{Key: "recover/client-error", Family: "recover", What: "the client did not receive the error the recovery function returned", Input: in, Actual: peerCode + ": " + peerMsg})
							}
						}
					}
				}
			}
		}
	}
	// ---- a relay: the unary handler hands the request it received to a downstream client (which
	// stamps its own Spec on it) and panics afterwards: the panic is the handler's, it is recovered ----
	for _, proto := range protos {
		for _, downstream := range []string{"connect", "grpc"} {
			cfg := envCfg{Proto: proto}
			handled := 0
			var dopts []connect.ClientOption
			if downstream == "grpc" {
				dopts = append(dopts, connect.WithGRPC())
			}
			dopts = append(dopts, connect.WithCodec(h.ToyCodec{}))
			down := connect.NewClient[h.Raw, h.Raw](roundTripFunc(func(*http.Request) (*http.Response, error) { return nil, errors.New("downstream unreachable") }), "http://down.local/down.Svc/M", dopts...)
			handler := connect.NewUnaryHandler("/verif.Svc/M", func(ctx context.Context, req *connect.Request[h.Raw]) (*connect.Response[h.Raw], error) {
				_, _ = down.CallUnary(ctx, req)
				panic("relay panics after forwarding")
			}, connect.WithCodec(h.ToyCodec{}), connect.WithRecover(func(context.Context, connect.Spec, http.Header, any) error {
				handled++
				return connect.NewError(connect.CodeFailedPrecondition, errors.New("recovered"))
			}))
			b, ct := h.Frame(0, []byte("q")), cfg.contentType(false)
			if proto == "connect" {
				b, ct = []byte("q"), cfg.contentType(true)
			}
			req := httptest.NewRequest(http.MethodPost, "/verif.Svc/M", bytes.NewReader(b))
			req.ProtoMajor, req.ProtoMinor = 2, 0
			req.Header.Set("Content-Type", ct)
			rec := httptest.NewRecorder()
			escaped := safely(func() { handler.ServeHTTP(rec, req) })
			in := map[string]any{"proto": proto, "kind": "unary", "handler": "passes the *Request it received to a " + downstream + " client's CallUnary, then panics"}
			r.Eval("recover_relay", fmt.Sprint(proto, downstream))
			peerKind := "server"
			if proto == "connect" {
				peerKind = "unary"
			}
			code, msg := peerError(proto, peerKind, rec)
			r.Sample("recover_relay", map[string]any{"in": in, "peer_code": code, "recovery_function_calls": handled, "escaped": escaped != nil})
			if escaped != nil {
				r.Fail(h.Failure{Key: "recover/panic-escaped", Family: "recover_relay", What: "the panic of a handler that had forwarded its request escaped ServeHTTP", Input: in, Actual: fmt.Sprint(escaped)})
			} else if handled != 1 || code != "failed_precondition" || msg != "recovered" {
				r.Fail(h.Failure{Key: "recover/handle-calls", Family: "recover_relay", What: "the panic was not converted by exactly one call of the recovery function", Input: in, Actual: fmt.Sprint("calls=", handled, " peer sees ", code, ": ", msg)})
			}
		}
	}

	// ---- what the recovery function returns is what the client receives, whatever the shape of
	// its chain: a handler panics with the error of a downstream call whose context had ended, the
	// recovery function wraps it ----
	for _, proto := range protos {
		for _, kind := range []string{"unary", "server", "client"} {
			for _, cause := range []error{context.DeadlineExceeded, context.Canceled, errors.New("plain")} {
				for shape := 0; shape < 4; shape++ {
					cfg := envCfg{Proto: proto}
					handled := 0
					panicVal := fmt.Errorf("downstream call: %w", cause)
					recoverFn := func(_ context.Context, _ connect.Spec, _ http.Header, rv any) error {
						handled++
						e, _ := rv.(error)
						switch shape {
						case 0:
							return connect.NewError(connect.CodeDataLoss, fmt.Errorf("recovered: %w", e))
						case 1:
							return fmt.Errorf("recovered: %w", connect.NewError(connect.CodeDataLoss, e))
						case 2:
							return errors.Join(connect.NewError(connect.CodeDataLoss, errors.New("recovered")), e)
						default:
							return fmt.Errorf("recovered: %w; and %w", connect.NewError(connect.CodeDataLoss, errors.New("inner")), e)
						}
					}
					hopts := []connect.HandlerOption{connect.WithCodec(h.ToyCodec{}), connect.WithRecover(recoverFn)}
					var handler *connect.Handler
					switch kind {
					case "unary":
						handler = connect.NewUnaryHandler("/verif.Svc/M", func(context.Context, *connect.Request[h.Raw]) (*connect.Response[h.Raw], error) { panic(panicVal) }, hopts...)
					case "server":
						handler = connect.NewServerStreamHandler("/verif.Svc/M", func(_ context.Context, _ *connect.Request[h.Raw], st *connect.ServerStream[h.Raw]) error {
							_ = st.Send(&h.Raw{B: []byte("m")})
							panic(panicVal)
						}, hopts...)
					default:
						handler = connect.NewClientStreamHandler("/verif.Svc/M", func(context.Context, *connect.ClientStream[h.Raw]) (*connect.Response[h.Raw], error) { panic(panicVal) }, hopts...)
					}
					unary := proto == "connect" && kind == "unary"
					b := h.Frame(0, []byte("q"))
					if unary {
						b = []byte("q")
					}
					req := httptest.NewRequest(http.MethodPost, "/verif.Svc/M", bytes.NewReader(b))
					req.ProtoMajor, req.ProtoMinor = 2, 0
					req.Header.Set("Content-Type", cfg.contentType(kind == "unary"))
					rec := httptest.NewRecorder()
					escaped := safely(func() { handler.ServeHTTP(rec, req) })
					in := map[string]any{"proto": proto, "kind": kind, "handler panics with": panicVal.Error(),
						"recovery function returns": []string{"NewError(data_loss, fmt.Errorf(\"recovered: %w\", v))", "fmt.Errorf(\"recovered: %w\", NewError(data_loss, v))", "errors.Join(NewError(data_loss, ...), v)", "fmt.Errorf(\"recovered: %w; and %w\", NewError(data_loss, ...), v)"}[shape]}
					r.Eval("recover_returns", fmt.Sprint(proto, kind, cause, shape))
					peerKind := "server"
					if unary {
						peerKind = "unary"
					}
					code, msg := peerError(proto, peerKind, rec)
					r.Sample("recover_returns", map[string]any{"in": in, "peer_code": code, "peer_message": msg, "recovery_function_calls": handled})
					if escaped != nil {
						r.Fail(h.Failure{Key: "recover/panic-escaped", Family: "recover_returns", What: "the panic escaped ServeHTTP", Input: in, Actual: fmt.Sprint(escaped)})
					} else if handled != 1 || code != "data_loss" {
						r.Fail(h.Failure{Key: "recover/returned-error-not-delivered", Family: "recover_returns", What: "the client does not receive the error the recovery function returned (its code is the one errors.As finds in it: data_loss)", Input: in, Expected: "data_loss", Actual: fmt.Sprint("calls=", handled, " peer sees ", code, ": ", msg)})
					}
				}
			}
		}
	}

	// ---- the handler's first Send failed before anything was written, and the handler panics
	// with that error: recovered once, and the recovery function's error reaches the client ----
	for _, proto := range protos {
		cerr, calls, p := failedFirstSendCall(proto, true)
		in := map[string]any{"proto": proto, "kind": "server", "handler": "its first Send fails in the codec; it panics with that error", "recovery function returns": "data_loss 'after the failed send'"}
		r.Eval("panic_after_failed_send", proto)
		r.Sample("panic_after_failed_send", map[string]any{"in": in, "client_error": fmt.Sprint(cerr), "recovery_function_calls": calls})
		if p != nil {
			r.Fail(h.Failure{Key: "recover/panic-escaped", Family: "panic_after_failed_send", What: "the panic escaped", Input: in, Actual: fmt.Sprint(p)})
		} else if calls != 1 || connect.CodeOf(cerr) != connect.CodeDataLoss {
			r.Fail(h.Failure{Key: "recover/returned-error-not-delivered", Family: "panic_after_failed_send", What: "the client does not receive the error the recovery function returned", Input: in, Expected: "data_loss: after the failed send", Actual: fmt.Sprint("calls=", calls, " client sees ", cerr)})
		}
	}

	// ---- calls that OVERLAP on one handler: B enters and waits; A returns normally; then B
	// panics. Whether a call panicked is that call's business: B is recovered ----
	for _, proto := range protos {
		for _, kind := range []string{"unary", "server"} {
			cfg := envCfg{Proto: proto}
			var handled atomic.Int64
			bEntered, bGo := make(chan struct{}), make(chan struct{})
			hopts := []connect.HandlerOption{connect.WithCodec(h.ToyCodec{}), connect.WithRecover(func(context.Context, connect.Spec, http.Header, any) error {
				handled.Add(1)
				return connect.NewError(connect.CodeDataLoss, errors.New("recovered"))
			})}
			body := func(who string) {
				if who == "B" {
					close(bEntered)
					<-bGo
					panic("B panics after A has returned")
				}
			}
			var handler *connect.Handler
			if kind == "unary" {
				handler = connect.NewUnaryHandler("/verif.Svc/M", func(_ context.Context, req *connect.Request[h.Raw]) (*connect.Response[h.Raw], error) {
					body(string(req.Msg.B))
					return connect.NewResponse(&h.Raw{B: []byte("ok")}), nil
				}, hopts...)
			} else {
				handler = connect.NewServerStreamHandler("/verif.Svc/M", func(_ context.Context, req *connect.Request[h.Raw], s *connect.ServerStream[h.Raw]) error {
					_ = s.Send(&h.Raw{B: []byte("first")})
					body(string(req.Msg.B))
					return nil
				}, hopts...)
			}
			serve := func(who string) (rec *httptest.ResponseRecorder, escaped any) {
				b := h.Frame(0, []byte(who))
				ct := cfg.contentType(false)
				if kind == "unary" && proto == "connect" {
					b, ct = []byte(who), cfg.contentType(true)
				}
				req := httptest.NewRequest(http.MethodPost, "/verif.Svc/M", bytes.NewReader(b))
				req.ProtoMajor, req.ProtoMinor = 2, 0
				req.Header.Set("Content-Type", ct)
				rec = httptest.NewRecorder()
				escaped = safely(func() { handler.ServeHTTP(rec, req) })
				return
			}
			type outcome struct {
				rec     *httptest.ResponseRecorder
				escaped any
			}
			bDone := make(chan outcome, 1)
			go func() { rec, esc := serve("B"); bDone <- outcome{rec, esc} }()
			in := map[string]any{"proto": proto, "kind": kind, "schedule": "B enters; A enters and returns normally; B panics"}
			r.Eval("recover_overlap", fmt.Sprint(proto, kind))
			select {
			case <-bEntered:
			case <-time.After(5 * time.Second):
				r.Fail(h.Failure{Key: "recover/hang", Family: "recover_overlap", What: "call B never reached user code", Input: in})
				continue
			}
			recA, escA := serve("A")
			close(bGo)
			var b outcome
			select {
			case b = <-bDone:
			case <-time.After(5 * time.Second):
				r.Fail(h.Failure{Key: "recover/hang", Family: "recover_overlap", What: "call B did not finish", Input: in})
				continue
			}
			peerKind := "server"
			if kind == "unary" && proto == "connect" {
				peerKind = "unary"
			}
			codeA, _ := peerError(proto, peerKind, recA)
			codeB, msgB := peerError(proto, peerKind, b.rec)
			r.Sample("recover_overlap", map[string]any{"in": in, "A": codeA, "B": codeB, "recovery_function_calls": handled.Load()})
			if escA != nil || codeA != "" {
				r.Fail(h.Failure{Key: "recover/no-panic-affected", Family: "recover_overlap", What: "call A does not panic and was affected", Input: in, Actual: fmt.Sprint(escA, " ", codeA)})
			}
			if b.escaped != nil {
				r.Fail(h.Failure{Key: "recover/panic-escaped", Family: "recover_overlap", What: "the panic of call B escaped ServeHTTP (another call of the same procedure had returned normally meanwhile)", Input: in, Actual: fmt.Sprint(b.escaped)})
			} else if handled.Load() != 1 || codeB != "data_loss" || msgB != "recovered" {
				r.Fail(h.Failure{Key: "recover/handle-calls", Family: "recover_overlap", What: "call B's panic was not converted by exactly one call of the recovery function", Input: in, Actual: fmt.Sprint("calls=", handled.Load(), " B sees ", codeB, ": ", msgB)})
			}
		}
	}

}

// peerError extracts the error code/message a peer would see from a recorded response.
func peerError(proto, kind string, rec *httptest.ResponseRecorder) (code, msg string) {
	switch proto {
	case "grpc":
		st := rec.Header().Get(http.TrailerPrefix + "Grpc-Status")
		if st == "" {
			st = rec.Header().Get("Grpc-Status")
		}
		if st == "" || st == "0" {
			return "", ""
		}
		var c connect.Code
		_ = c.UnmarshalText([]byte("code_" + st))
		var n uint32
		fmt.Sscanf(st, "%d", &n)
		m := rec.Header().Get(http.TrailerPrefix + "Grpc-Message")
		if m == "" {
			m = rec.Header().Get("Grpc-Message")
		}
		return connect.Code(n).String(), connect.VerifGRPCPercentDecode(m)
	case "grpcweb":
		if st := rec.Header().Get("Grpc-Status"); st != "" {
			if st == "0" {
				return "", ""
			}
			var n uint32
			fmt.Sscanf(st, "%d", &n)
			return connect.Code(n).String(), connect.VerifGRPCPercentDecode(rec.Header().Get("Grpc-Message"))
		}
		// trailer frame: last envelope with flag 0x80
		body := rec.Body.Bytes()
		for len(body) >= 5 {
			n := int(uint32(body[1])<<24 | uint32(body[2])<<16 | uint32(body[3])<<8 | uint32(body[4]))
			if 5+n > len(body) {
				break
			}
			if body[0]&0x80 != 0 {
				block := string(toyInflate(rec.Header().Get("Grpc-Encoding"), body[0], body[5:5+n]))
				st, m := "", ""
				for _, line := range bytes.Split([]byte(block), []byte("\r\n")) {
					kv := bytes.SplitN(line, []byte(": "), 2)
					if len(kv) != 2 {
						continue
					}
					switch http.CanonicalHeaderKey(string(kv[0])) {
					case "Grpc-Status":
						st = string(kv[1])
					case "Grpc-Message":
						m = string(kv[1])
					}
				}
				if st == "" || st == "0" {
					return "", ""
				}
				var k uint32
				fmt.Sscanf(st, "%d", &k)
				return connect.Code(k).String(), connect.VerifGRPCPercentDecode(m)
			}
			body = body[5+n:]
		}
		return "", ""
	}
	// connect
	var raw []byte
	if kind == "unary" {
		if rec.Code == 200 {
			return "", ""
		}
		raw = rec.Body.Bytes()
		return jsonErr(raw, false)
	}
	body := rec.Body.Bytes()
	for len(body) >= 5 {
		n := int(uint32(body[1])<<24 | uint32(body[2])<<16 | uint32(body[3])<<8 | uint32(body[4]))
		if 5+n > len(body) {
			break
		}
		if body[0]&0x02 != 0 {
			return jsonErr(toyInflate(rec.Header().Get("Connect-Content-Encoding"), body[0], body[5:5+n]), true)
		}
		body = body[5+n:]
	}
	return "", ""
}

func jsonErr(raw []byte, endStream bool) (code, msg string) {
	type werr struct {
		Code    string `json:"code"`
		Message string `json:"message"`
	}
	if endStream {
		var end struct {
			Error *werr `json:"error"`
		}
		if err := jsonUnmarshal(raw, &end); err != nil || end.Error == nil {
			return "", ""
		}
		return end.Error.Code, end.Error.Message
	}
	var e werr
	if err := jsonUnmarshal(raw, &e); err != nil {
		return "unparsable", string(raw)
	}
	return e.Code, e.Message
}

// toyInflate undoes the toy compressors on a terminator payload flagged compressed.
func toyInflate(algo string, flags byte, payload []byte) []byte {
	if flags&1 == 0 || len(payload) == 0 {
		return payload
	}
	switch algo {
	case "rle":
		var out []byte
		for i := 0; i+1 < len(payload); i += 2 {
			out = append(out, bytes.Repeat([]byte{payload[i+1]}, int(payload[i]))...)
		}
		return out
	case "tagA", "tagB", "tagC":
		return payload[1:]
	case "gzip":
		if zr, err := gzip.NewReader(bytes.NewReader(payload)); err == nil {
			var out bytes.Buffer
			_, _ = out.ReadFrom(zr)
			return out.Bytes()
		}
	}
	return payload
}

// abortLookalike is an error that errors.Is reports as http.ErrAbortHandler
// without being it.
type abortLookalike struct{}

func (abortLookalike) Error() string        { return "looks like an abort" }
func (abortLookalike) Is(target error) bool { return target == http.ErrAbortHandler }

type unhashablePanic struct{ S []int }
