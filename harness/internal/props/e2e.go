package props

import (
	"context"
	"crypto/tls"
	"errors"
	"fmt"
	"io"
	"net/http"
	"net/http/httptest"
	"time"

	connect "github.com/bufbuild/connect-go"
	"github.com/bufbuild/connect-go/verifharness/internal/h"
	"google.golang.org/protobuf/types/known/wrapperspb"
)

// msgKind abstracts the message type of an end-to-end run.
type msgKind[T any] struct {
	mk  func([]byte) *T
	get func(*T) []byte
}

var rawKind = msgKind[h.Raw]{
	mk:  func(b []byte) *h.Raw { return &h.Raw{B: append([]byte(nil), b...)} },
	get: func(m *h.Raw) []byte { return m.B },
}

var bytesValueKind = msgKind[wrapperspb.BytesValue]{
	mk:  func(b []byte) *wrapperspb.BytesValue { return &wrapperspb.BytesValue{Value: append([]byte(nil), b...)} },
	get: func(m *wrapperspb.BytesValue) []byte { return m.GetValue() },
}

type e2eResult struct {
	HandlerGot [][]byte
	HandlerEnd string // "eof" | "err:<code>" | "" (not applicable)
	ClientGot  [][]byte
	ClientEnd  string // "eof" | "err:<code>"
	Calls      int
	Panic      any
	ResHeader  http.Header
	ResTrailer http.Header
}

// e2eExtras carries metadata through a run: what the client attaches to the
// request, what the handler attaches to the response, and what each side saw.
type e2eExtras struct {
	ReqHeader  http.Header // set by the client
	ResHeader  http.Header // set by the handler
	ResTrailer http.Header // set by the handler
	// outputs
	HandlerSawHeader http.Header
	ClientErr        error
	// IcptErr, if set, is returned by a handler-side interceptor instead of calling the handler
	IcptErr error
}

type errIcpt struct{ err error }

func (e errIcpt) WrapUnary(next connect.UnaryFunc) connect.UnaryFunc {
	return func(ctx context.Context, req connect.AnyRequest) (connect.AnyResponse, error) {
		if req.Spec().IsClient {
			return next(ctx, req)
		}
		return nil, e.err
	}
}
func (e errIcpt) WrapStreamingClient(next connect.StreamingClientFunc) connect.StreamingClientFunc {
	return next
}
func (e errIcpt) WrapStreamingHandler(next connect.StreamingHandlerFunc) connect.StreamingHandlerFunc {
	return func(ctx context.Context, conn connect.StreamingHandlerConn) error { return e.err }
}

func copyHeader(dst, src http.Header) {
	for k, vs := range src {
		for _, v := range vs {
			dst.Add(k, v)
		}
	}
}

type e2eTransport int

const (
	viaLocal e2eTransport = iota
	viaHTTP1
	viaHTTP2
	viaLocalFrag1 // in-process, both bodies delivered one byte per Read
	viaLocalFrag3 // in-process, both bodies delivered at most three bytes per Read
)

func endOf(err error) string {
	if err == nil {
		return "eof"
	}
	return "err:" + connect.CodeOf(err).String()
}

// runE2E performs one call of the given kind (unary|client|server|bidi): the
// client sends reqMsgs, the handler answers with resMsgs (or retErr).
func runE2E[T any](mk msgKind[T], kind string, via e2eTransport, copts []connect.ClientOption, hopts []connect.HandlerOption,
	reqMsgs, resMsgs [][]byte, retErr error, timeout time.Duration, ex *e2eExtras) (res e2eResult) {
	if ex == nil {
		ex = &e2eExtras{}
	}
	if ex.IcptErr != nil {
		hopts = append(append([]connect.HandlerOption{}, hopts...), connect.WithInterceptors(errIcpt{ex.IcptErr}))
	}
	var hgot [][]byte
	hend := ""
	calls := 0
	mux := http.NewServeMux()
	mux.Handle("/verif.Svc/Unary", connect.NewUnaryHandler("/verif.Svc/Unary",
		func(_ context.Context, req *connect.Request[T]) (*connect.Response[T], error) {
			calls++
			ex.HandlerSawHeader = req.Header().Clone()
			hgot = append(hgot, append([]byte(nil), mk.get(req.Msg)...))
			if retErr != nil {
				return nil, retErr
			}
			resp := connect.NewResponse(mk.mk(resMsgs[0]))
			copyHeader(resp.Header(), ex.ResHeader)
			copyHeader(resp.Trailer(), ex.ResTrailer)
			return resp, nil
		}, hopts...))
	mux.Handle("/verif.Svc/Client", connect.NewClientStreamHandler("/verif.Svc/Client",
		func(_ context.Context, s *connect.ClientStream[T]) (*connect.Response[T], error) {
			calls++
			ex.HandlerSawHeader = s.RequestHeader().Clone()
			for s.Receive() {
				hgot = append(hgot, append([]byte(nil), mk.get(s.Msg())...))
			}
			hend = endOf(s.Err())
			if s.Err() != nil {
				return nil, s.Err()
			}
			if retErr != nil {
				return nil, retErr
			}
			resp := connect.NewResponse(mk.mk(resMsgs[0]))
			copyHeader(resp.Header(), ex.ResHeader)
			copyHeader(resp.Trailer(), ex.ResTrailer)
			return resp, nil
		}, hopts...))
	mux.Handle("/verif.Svc/Server", connect.NewServerStreamHandler("/verif.Svc/Server",
		func(_ context.Context, req *connect.Request[T], s *connect.ServerStream[T]) error {
			calls++
			ex.HandlerSawHeader = req.Header().Clone()
			hgot = append(hgot, append([]byte(nil), mk.get(req.Msg)...))
			copyHeader(s.ResponseHeader(), ex.ResHeader)
			copyHeader(s.ResponseTrailer(), ex.ResTrailer)
			for _, m := range resMsgs {
				if err := s.Send(mk.mk(m)); err != nil {
					return err
				}
			}
			return retErr
		}, hopts...))
	mux.Handle("/verif.Svc/Bidi", connect.NewBidiStreamHandler("/verif.Svc/Bidi",
		func(_ context.Context, s *connect.BidiStream[T, T]) error {
			calls++
			ex.HandlerSawHeader = s.RequestHeader().Clone()
			copyHeader(s.ResponseHeader(), ex.ResHeader)
			copyHeader(s.ResponseTrailer(), ex.ResTrailer)
			for {
				m, err := s.Receive()
				if err != nil {
					if !errors.Is(err, io.EOF) {
						hend = endOf(err)
						return err
					}
					hend = "eof"
					break
				}
				hgot = append(hgot, append([]byte(nil), mk.get(m)...))
			}
			for _, m := range resMsgs {
				if err := s.Send(mk.mk(m)); err != nil {
					return err
				}
			}
			return retErr
		}, hopts...))

	var httpClient connect.HTTPClient
	base := "http://verif.local"
	switch via {
	case viaLocal:
		httpClient = &h.LocalClient{Handler: mux}
	case viaLocalFrag1, viaLocalFrag3:
		k := 1
		if via == viaLocalFrag3 {
			k = 3
		}
		httpClient = &fragClient{inner: &h.LocalClient{Handler: mux}, k: k}
	default:
		srv := httptest.NewUnstartedServer(mux)
		srv.EnableHTTP2 = via == viaHTTP2
		srv.StartTLS()
		defer srv.Close()
		cl := srv.Client()
		if via == viaHTTP1 {
			tr := cl.Transport.(*http.Transport).Clone()
			tr.ForceAttemptHTTP2 = false
			tr.TLSNextProto = map[string]func(string, *tls.Conn) http.RoundTripper{}
			cl = &http.Client{Transport: tr}
		}
		httpClient = cl
		base = srv.URL
	}
	ctx := context.Background()
	if timeout > 0 {
		var cancel context.CancelFunc
		ctx, cancel = context.WithTimeout(ctx, timeout)
		defer cancel()
	}
	done := make(chan struct{})
	go func() {
		defer close(done)
		res.Panic = safely(func() {
			switch kind {
			case "unary":
				cl := connect.NewClient[T, T](httpClient, base+"/verif.Svc/Unary", copts...)
				creq := connect.NewRequest(mk.mk(reqMsgs[0]))
				copyHeader(creq.Header(), ex.ReqHeader)
				resp, err := cl.CallUnary(ctx, creq)
				ex.ClientErr = err
				if err == nil {
					res.ClientGot = append(res.ClientGot, append([]byte(nil), mk.get(resp.Msg)...))
					res.ResHeader, res.ResTrailer = resp.Header(), resp.Trailer()
				}
				res.ClientEnd = endOf(err)
			case "client":
				cl := connect.NewClient[T, T](httpClient, base+"/verif.Svc/Client", copts...)
				st := cl.CallClientStream(ctx)
				copyHeader(st.RequestHeader(), ex.ReqHeader)
				var err error
				for _, m := range reqMsgs {
					if err = st.Send(mk.mk(m)); err != nil {
						break
					}
				}
				resp, rerr := st.CloseAndReceive()
				ex.ClientErr = rerr
				if rerr == nil {
					res.ClientGot = append(res.ClientGot, append([]byte(nil), mk.get(resp.Msg)...))
					res.ResHeader, res.ResTrailer = resp.Header(), resp.Trailer()
				}
				res.ClientEnd = endOf(rerr)
			case "server":
				cl := connect.NewClient[T, T](httpClient, base+"/verif.Svc/Server", copts...)
				sreq := connect.NewRequest(mk.mk(reqMsgs[0]))
				copyHeader(sreq.Header(), ex.ReqHeader)
				st, err := cl.CallServerStream(ctx, sreq)
				if err != nil {
					ex.ClientErr = err
					res.ClientEnd = endOf(err)
					return
				}
				for st.Receive() {
					res.ClientGot = append(res.ClientGot, append([]byte(nil), mk.get(st.Msg())...))
				}
				res.ClientEnd = endOf(st.Err())
				ex.ClientErr = st.Err()
				res.ResHeader, res.ResTrailer = st.ResponseHeader(), st.ResponseTrailer()
				_ = st.Close()
			case "bidi":
				cl := connect.NewClient[T, T](httpClient, base+"/verif.Svc/Bidi", copts...)
				st := cl.CallBidiStream(ctx)
				copyHeader(st.RequestHeader(), ex.ReqHeader)
				for _, m := range reqMsgs {
					if err := st.Send(mk.mk(m)); err != nil {
						break
					}
				}
				_ = st.CloseRequest()
				for {
					m, err := st.Receive()
					if err != nil {
						if errors.Is(err, io.EOF) {
							res.ClientEnd = "eof"
						} else {
							res.ClientEnd = endOf(err)
							ex.ClientErr = err
						}
						break
					}
					res.ClientGot = append(res.ClientGot, append([]byte(nil), mk.get(m)...))
				}
				res.ResHeader, res.ResTrailer = st.ResponseHeader(), st.ResponseTrailer()
				_ = st.CloseResponse()
			}
		})
	}()
	select {
	case <-done:
	case <-time.After(20 * time.Second):
		res.Panic = "watchdog: call did not return within 20s"
	}
	res.HandlerGot, res.HandlerEnd, res.Calls = hgot, hend, calls
	return res
}

func bytesListEq(a, b [][]byte) bool {
	if len(a) != len(b) {
		return false
	}
	for i := range a {
		if string(a[i]) != string(b[i]) {
			return false
		}
	}
	return true
}

func hexList(a [][]byte) []string {
	out := make([]string, len(a))
	for i, b := range a {
		if len(b) > 40 {
			out[i] = fmt.Sprintf("%s...(%d bytes)", h.Hex(b[:16]), len(b))
		} else {
			out[i] = h.Hex(b)
		}
	}
	return out
}

// fragClient delivers the request body to the transport and the response body
// to the caller at most k bytes per Read (a re-chunking proxy, a slow link).
type fragClient struct {
	inner connect.HTTPClient
	k     int
}

type fragBody struct {
	rc io.ReadCloser
	k  int
}

func (b *fragBody) Read(p []byte) (int, error) {
	if len(p) > b.k {
		p = p[:b.k]
	}
	return b.rc.Read(p)
}
func (b *fragBody) Close() error { return b.rc.Close() }

func (c *fragClient) Do(req *http.Request) (*http.Response, error) {
	r2 := req.Clone(req.Context())
	if req.Body != nil {
		r2.Body = &fragBody{req.Body, c.k}
	}
	res, err := c.inner.Do(r2)
	if err != nil {
		return nil, err
	}
	res.Body = &fragBody{res.Body, c.k}
	res.Request = req
	return res, nil
}
