package props

import (
	"bytes"
	"context"
	"errors"
	"fmt"
	"io"
	"net/http"
	"net/http/httptest"
	"strings"

	connect "github.com/bufbuild/connect-go"
	"github.com/bufbuild/connect-go/verifharness/internal/h"
)

// ---- shared machinery of the envelope-level families (C01, C03, C04, C09) ----

type obsItem struct {
	Kind string // "msg" | "eof" | "err"
	B    []byte
	Code connect.Code
}

func (o obsItem) coq() string {
	switch o.Kind {
	case "msg":
		return "OMsg " + h.CoqBytes(o.B)
	case "eof":
		return "OEOF"
	}
	return fmt.Sprintf("OErr %d", uint32(o.Code))
}

func (o obsItem) String() string {
	switch o.Kind {
	case "msg":
		return "msg:" + h.Hex(o.B)
	case "eof":
		return "eof"
	}
	return "err:" + o.Code.String()
}

func obsEqual(a, b []obsItem) bool {
	if len(a) != len(b) {
		return false
	}
	for i := range a {
		if a[i].Kind != b[i].Kind || a[i].Code != b[i].Code || !bytes.Equal(a[i].B, b[i].B) {
			return false
		}
	}
	return true
}

func obsStrings(a []obsItem) []string {
	out := make([]string, len(a))
	for i := range a {
		out[i] = a[i].String()
	}
	return out
}

type envCfg struct {
	Proto string // connect | grpc | grpcweb
	Max   int
	Algo  string // "" | tagA | tagB | rle
	// ExplicitIdentity: with no Algo, name the identity encoding in the header instead of omitting it
	ExplicitIdentity bool `json:",omitempty"`
	// KeepReceiving: the handler is a bidi handler that goes on calling Receive after a
	// message-too-large error (the reader skips such a message and stays aligned)
	KeepReceiving bool `json:",omitempty"`
}

func (c envCfg) coqProto() string {
	switch c.Proto {
	case "grpc":
		return "PGrpc"
	case "grpcweb":
		return "PGrpcWeb"
	}
	return "PConnect"
}

func (c envCfg) coqAlgo() string {
	switch {
	case c.Algo == "":
		return "None"
	case c.Algo == "rle":
		return "(Some ARle)"
	}
	return fmt.Sprintf("(Some (ATag x%02x))", h.TagByte(c.Algo))
}

func (c envCfg) contentType(unary bool) string {
	switch c.Proto {
	case "grpc":
		return "application/grpc+toy"
	case "grpcweb":
		return "application/grpc-web+toy"
	}
	if unary {
		return "application/toy"
	}
	return "application/connect+toy"
}

func (c envCfg) encodingHeader(unary bool) string {
	switch c.Proto {
	case "grpc", "grpcweb":
		return "Grpc-Encoding"
	}
	if unary {
		return "Content-Encoding"
	}
	return "Connect-Content-Encoding"
}

func (c envCfg) handlerOpts() []connect.HandlerOption {
	opts := []connect.HandlerOption{connect.WithCodec(h.ToyCodec{}), h.WithTag("tagA"), h.WithTag("tagB"), h.WithRLE()}
	if c.Max > 0 {
		opts = append(opts, connect.WithReadMaxBytes(c.Max))
	}
	return opts
}

func compressToy(algo string, p []byte) []byte {
	switch algo {
	case "":
		return p
	case "rle":
		var out []byte
		i := 0
		for i < len(p) {
			j := i
			for j < len(p) && p[j] == p[i] && j-i < 255 {
				j++
			}
			out = append(out, byte(j-i), p[i])
			i = j
		}
		return out
	}
	return append([]byte{h.TagByte(algo)}, p...)
}

// serveStream feeds a request body to a client-streaming handler and returns
// what user code observed from its successive Receive calls.
func serveStream(cfg envCfg, body *h.ChunkBody) (obs []obsItem, rec *httptest.ResponseRecorder, calls int, panicked any) {
	handler := connect.NewClientStreamHandler("/verif.Svc/Stream",
		func(_ context.Context, s *connect.ClientStream[h.Raw]) (*connect.Response[h.Raw], error) {
			calls++
			for s.Receive() {
				obs = append(obs, obsItem{Kind: "msg", B: append([]byte(nil), s.Msg().B...)})
			}
			if err := s.Err(); err != nil {
				obs = append(obs, obsItem{Kind: "err", Code: connect.CodeOf(err)})
				return nil, err
			}
			obs = append(obs, obsItem{Kind: "eof"})
			return connect.NewResponse(&h.Raw{B: []byte{byte(len(obs))}}), nil
		}, cfg.handlerOpts()...)
	if cfg.KeepReceiving {
		handler = connect.NewBidiStreamHandler("/verif.Svc/Stream",
			func(_ context.Context, s *connect.BidiStream[h.Raw, h.Raw]) error {
				calls++
				failedBefore := false
				for k := 0; k < 24; k++ {
					m, err := s.Receive()
					switch {
					case err == nil:
						obs = append(obs, obsItem{Kind: "msg", B: append([]byte(nil), m.B...)})
						failedBefore = false
					case errors.Is(err, io.EOF):
						obs = append(obs, obsItem{Kind: "eof"})
						return nil
					default:
						// a message beyond the limit (or one that does not decode) has been consumed
						// whole: try the next one; give up at the second failure in a row
						obs = append(obs, obsItem{Kind: "err", Code: connect.CodeOf(err)})
						if failedBefore {
							return err
						}
						failedBefore = true
					}
				}
				return nil
			}, cfg.handlerOpts()...)
	}
	req := httptest.NewRequest(http.MethodPost, "/verif.Svc/Stream", nil)
	if cfg.KeepReceiving {
		req.ProtoMajor, req.ProtoMinor, req.Proto = 2, 0, "HTTP/2.0"
	}
	req.Body = body
	req.Header.Set("Content-Type", cfg.contentType(false))
	if cfg.Algo != "" {
		req.Header.Set(cfg.encodingHeader(false), cfg.Algo)
	} else if cfg.ExplicitIdentity {
		req.Header.Set(cfg.encodingHeader(false), "identity")
	}
	rec = httptest.NewRecorder()
	panicked = safely(func() { handler.ServeHTTP(rec, req) })
	return
}

func serveUnary(cfg envCfg, body *h.ChunkBody) (obs obsItem, rec *httptest.ResponseRecorder, calls int, panicked any) {
	obs = obsItem{Kind: "none"}
	handler := connect.NewUnaryHandler("/verif.Svc/Unary",
		func(_ context.Context, req *connect.Request[h.Raw]) (*connect.Response[h.Raw], error) {
			calls++
			obs = obsItem{Kind: "msg", B: append([]byte(nil), req.Msg.B...)}
			return connect.NewResponse(&h.Raw{B: []byte("ok")}), nil
		}, cfg.handlerOpts()...)
	req := httptest.NewRequest(http.MethodPost, "/verif.Svc/Unary", nil)
	req.Body = body
	// half of the requests declare their length (what non-connect clients and proxies do;
	// connect-go's own client streams the body and declares none)
	total := 0
	for _, c := range body.Chunks {
		total += len(c)
	}
	req.ContentLength = -1
	if total%2 == 0 && (body.Fin == h.FinCleanEOF || body.Fin == h.FinEOFWithData) {
		req.ContentLength = int64(total)
		req.Header.Set("Content-Length", fmt.Sprint(total))
	}
	req.Header.Set("Content-Type", cfg.contentType(true))
	if cfg.Algo != "" {
		req.Header.Set(cfg.encodingHeader(true), cfg.Algo)
	} else if cfg.ExplicitIdentity {
		req.Header.Set(cfg.encodingHeader(true), "identity")
	}
	rec = httptest.NewRecorder()
	panicked = safely(func() { handler.ServeHTTP(rec, req) })
	if obs.Kind == "none" {
		// user code did not run: the error reached the peer as JSON under an HTTP status
		code := connect.CodeUnknown
		body := rec.Body.String()
		if i := strings.Index(body, `"code":"`); i >= 0 {
			rest := body[i+8:]
			if j := strings.Index(rest, `"`); j >= 0 {
				_ = code.UnmarshalText([]byte(rest[:j]))
			}
		}
		obs = obsItem{Kind: "err", Code: code}
	}
	return
}

// envRun executes one handler-side receive case, emits the model case when
// model is set, and returns the observation.
func envRun(r *h.Run, fam string, cfg envCfg, parseOK bool, chunks [][]byte, fin h.FinKind, model bool, desc string) []obsItem {
	body := h.NewChunkBody(chunks, fin)
	obs, _, calls, p := serveStream(cfg, body)
	flat := bytes.Join(chunks, nil)
	key := fmt.Sprintf("%s|%d|%s|%x|%d|%d", cfg.Proto, cfg.Max, cfg.Algo, flat, len(chunks), fin)
	r.Eval(fam, key)
	if p != nil {
		r.Fail(h.Failure{Key: "envelope/panic", Family: fam, What: fmt.Sprint("panic while serving: ", p), Input: map[string]any{"cfg": cfg, "body_hex": h.Hex(flat), "chunks": len(chunks), "fin": fin.Coq()}})
		return nil
	}
	if calls > 1 {
		r.Fail(h.Failure{Key: "envelope/ran-twice", Family: fam, What: "user code ran more than once", Input: h.Hex(flat)})
	}
	r.Sample(fam, map[string]any{"cfg": cfg, "body_hex": h.Hex(flat), "chunk_sizes": chunkSizes(chunks), "fin": fin.Coq(), "observed": obsStrings(obs), "what": desc})
	obsBytes := 0
	for _, o := range obs {
		obsBytes += len(o.B)
	}
	if model && calls == 1 && obsBytes <= 8192 {
		items := make([]string, len(obs))
		for i, o := range obs {
			items[i] = o.coq()
		}
		r.Case(fam, fmt.Sprintf("HRecv %s %d %s %s %s %s %s", cfg.coqProto(), cfg.Max, cfg.coqAlgo(), h.CoqBool(parseOK),
			h.CoqBytesList(chunks), fin.Coq(), h.CoqList(items)),
			map[string]any{"cfg": cfg, "body_hex": h.Hex(flat), "chunk_sizes": chunkSizes(chunks), "fin": fin.Coq(), "impl_observed": obsStrings(obs), "what": desc})
	}
	if obs == nil {
		obs = []obsItem{} // nil is reserved for "panicked": user code that never ran observed nothing
	}
	return obs
}

func envRunUnary(r *h.Run, fam string, cfg envCfg, chunks [][]byte, fin h.FinKind, model bool, desc string) obsItem {
	body := h.NewChunkBody(chunks, fin)
	obs, _, calls, p := serveUnary(cfg, body)
	flat := bytes.Join(chunks, nil)
	r.Eval(fam, fmt.Sprintf("u|%d|%s|%x|%d|%d", cfg.Max, cfg.Algo, flat, len(chunks), fin))
	if p != nil {
		r.Fail(h.Failure{Key: "envelope/panic", Family: fam, What: fmt.Sprint("panic while serving: ", p), Input: map[string]any{"cfg": cfg, "body_hex": h.Hex(flat)}})
		return obs
	}
	if calls > 1 {
		r.Fail(h.Failure{Key: "envelope/ran-twice", Family: fam, What: "user code ran more than once", Input: h.Hex(flat)})
	}
	r.Sample(fam, map[string]any{"cfg": cfg, "body_hex": h.Hex(flat), "chunk_sizes": chunkSizes(chunks), "fin": fin.Coq(), "observed": obs.String(), "what": desc})
	if model && len(obs.B) <= 4096 { // (a toy-RLE body may expand a hundredfold: such a case is one term too large for coqc's stack)
		r.Case(fam, fmt.Sprintf("HUnary %d %s %s %s (%s)", cfg.Max, cfg.coqAlgo(), h.CoqBytesList(chunks), fin.Coq(), obs.coq()),
			map[string]any{"cfg": cfg, "body_hex": h.Hex(flat), "chunk_sizes": chunkSizes(chunks), "fin": fin.Coq(), "impl_observed": obs.String(), "what": desc})
	}
	return obs
}

func chunkSizes(chunks [][]byte) []int {
	out := make([]int, len(chunks))
	for i, c := range chunks {
		out[i] = len(c)
	}
	if len(out) > 24 {
		out = append(out[:24], -1)
	}
	return out
}

// ---- generators ----

var payloadSizes = []int{0, 1, 2, 3, 7, 511, 512, 513}

func genPayload(rng *h.Rng, n int) []byte {
	b := rng.Bytes(n)
	if n > 0 && b[0] == 0xFF { // 0xFF prefix means "undecodable" for the toy codec
		b[0] = 0x7F
	}
	return b
}

// genBody builds a request body: mostly valid frames (flags 0, or 1 with the
// configured algorithm), optionally with one malformed element.
func genBody(rng *h.Rng, cfg envCfg, nmsgs int, malformed bool, small bool) (body []byte, msgs [][]byte, parseOK bool, what string) {
	what = "valid"
	for i := 0; i < nmsgs; i++ {
		var p []byte
		switch {
		case small:
			p = genPayload(rng, rng.Intn(4))
		case rng.Intn(4) == 0:
			p = genPayload(rng, payloadSizes[rng.Intn(len(payloadSizes))])
		default:
			p = genPayload(rng, rng.Intn(24))
		}
		msgs = append(msgs, p)
		if cfg.Algo != "" && rng.Intn(3) != 0 {
			body = append(body, h.Frame(1, compressToy(cfg.Algo, p))...)
		} else {
			body = append(body, h.Frame(0, p)...)
		}
	}
	if !malformed {
		return
	}
	switch k := rng.Intn(11); k {
	case 0:
		what = "truncated"
		if len(body) > 0 {
			body = body[:rng.Intn(len(body))]
		}
	case 1:
		what = "length lie (declares more than present)"
		body = append(body, h.FrameLie(0, uint32(5+rng.Intn(200)), genPayload(rng, rng.Intn(4)))...)
	case 2:
		what = "special flags"
		fl := []byte{0x02, 0x03, 0x80, 0x81, 0x04, 0x40, 0x82, 0xff}[rng.Intn(8)]
		pay := []byte("{}")
		parseOK = true
		if (fl&0x80 != 0 && fl&0x02 == 0) || (cfg.Proto == "grpcweb" && fl&0x80 != 0) {
			// (gRPC-Web reads a frame with the trailer bit as a header block, whatever other bits are set)
			pay = []byte("grpc-status: 0\r\n")
		}
		if rng.Intn(3) == 0 {
			pay = []byte("\x00not an end of stream block")
			parseOK = false
		}
		if fl&1 == 1 {
			if cfg.Algo == "" {
				body = append(body, h.Frame(fl, pay)...) // compressed flag without an algorithm
			} else {
				body = append(body, h.Frame(fl, compressToy(cfg.Algo, pay))...)
			}
		} else {
			body = append(body, h.Frame(fl, pay)...)
		}
	case 3:
		what = "compressed flag without negotiated compression / corrupt compressed payload"
		body = append(body, h.Frame(1, genPayload(rng, 1+rng.Intn(6)))...)
	case 4:
		what = "undecodable payload"
		body = append(body, h.Frame(0, append([]byte{0xFF}, rng.Bytes(rng.Intn(4))...))...)
	case 5:
		what = "trailing garbage"
		body = append(body, rng.Bytes(1+rng.Intn(4))...)
	case 6:
		what = "zero-length compressed frame"
		body = append(body, h.Frame(1, nil)...)
		msgs = append(msgs, nil)
		if rng.Bool() {
			p := genPayload(rng, 3)
			body = append(body, h.Frame(0, p)...)
			msgs = append(msgs, p)
		}
	case 9, 10:
		what = "zero-length frame with special flags"
		fl := []byte{0x02, 0x03, 0x80, 0x81, 0x04, 0x40, 0x82, 0xff, 0x08, 0x10}[rng.Intn(10)]
		fr := h.Frame(fl, nil)
		// an empty payload is an empty (valid) MIME header block, but not a JSON object
		parseOK = cfg.Proto == "grpcweb"
		if k == 9 || len(msgs) == 0 {
			// in place of the first message
			body = append(append([]byte(nil), fr...), body...)
		} else {
			body = append(body, fr...)
		}
	case 7:
		what = "huge declared length"
		body = append(body, h.FrameLie(0, 0xFFFFFFF0, rng.Bytes(rng.Intn(3)))...)
	default:
		what = "bit flip"
		if len(body) > 0 {
			i := rng.Intn(len(body))
			body = append([]byte(nil), body...)
			body[i] ^= 1 << uint(rng.Intn(8))
			if i%5 != 0 && len(body) > 1<<20 {
				body = body[:64]
			}
		}
	}
	return
}

func randomCfg(rng *h.Rng) envCfg {
	cfg := envCfg{Proto: []string{"connect", "grpc", "grpcweb"}[rng.Intn(3)]}
	if rng.Intn(3) == 0 {
		cfg.Max = []int{1, 7, 16, 512, 1024}[rng.Intn(5)]
	}
	if rng.Intn(2) == 0 {
		cfg.Algo = []string{"tagA", "tagB", "rle"}[rng.Intn(3)]
	}
	return cfg
}

// declaredTooLarge reports whether a body (without a read limit) could make
// the receiver allocate an absurd amount; such bodies are only used with a limit.
func declaredTooLarge(body []byte, max int) bool {
	if max > 0 {
		return false
	}
	for i := 0; i+5 <= len(body); {
		n := int(uint32(body[i+1])<<24 | uint32(body[i+2])<<16 | uint32(body[i+3])<<8 | uint32(body[i+4]))
		if n > 1<<20 {
			return true
		}
		if i+5+n > len(body) {
			return false
		}
		i += 5 + n
	}
	return false
}
