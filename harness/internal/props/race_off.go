//go:build !race

package props

const raceEnabled = false
