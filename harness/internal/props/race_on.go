//go:build race

package props

const raceEnabled = true
