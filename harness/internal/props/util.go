package props

import (
	"encoding/json"
	"io"
	"time"
)

func jsonUnmarshal(b []byte, v any) error { return json.Unmarshal(b, v) }

func ioEOF() error { return io.EOF }

type timeDuration = time.Duration
