package props

import (
	"encoding/json"
	"io"
)

func jsonUnmarshal(b []byte, v any) error { return json.Unmarshal(b, v) }

func ioEOF() error { return io.EOF }
