package props

import (
	"bytes"
	"context"
	"encoding/json"
	"errors"
	"fmt"
	"io"
	"net/http"
	"net/http/httptest"
	"sync"
	"sync/atomic"
	"time"

	connect "github.com/bufbuild/connect-go"
	"github.com/bufbuild/connect-go/verifharness/internal/h"
)

func jsonUnmarshal(b []byte, v any) error { return json.Unmarshal(b, v) }

func ioEOF() error { return io.EOF }

type timeDuration = time.Duration

// decompressorSharing: one handler with a tracked pooled decompressor and a read
// limit; first the given trigger requests (corrupt / oversize compressed
// messages), then goroutines x perG valid compressed calls at the same time.
// Returns the tracker's findings and the number of calls whose answer was not
// the echo of their own request.
func decompressorSharing(triggers [][]byte, goroutines, perG int) (problems []string, wrong int, firstWrong string) {
	return decompressorSharingAlgo("tagA", triggers, goroutines, perG)
}

// decompressorSharingAlgo: algo is "tagA" or "rle" (run-length pairs: a small wire
// size can inflate beyond the read limit).
func decompressorSharingAlgo(algo string, triggers [][]byte, goroutines, perG int) (problems []string, wrong int, firstWrong string) {
	tr := &h.Tracker{}
	tracked := h.WithTrackedTag("tagA", tr)
	if algo == "rle" {
		tracked = h.WithTrackedRLE(tr)
	}
	handler := connect.NewUnaryHandler("/verif.Svc/M", func(_ context.Context, req *connect.Request[h.Raw]) (*connect.Response[h.Raw], error) {
		return connect.NewResponse(&h.Raw{B: append([]byte("echo:"), req.Msg.B...)}), nil
	}, connect.WithCodec(h.ToyCodec{}), tracked, connect.WithReadMaxBytes(256), connect.WithCompressMinBytes(1<<20))
	post := func(body []byte) (int, []byte) {
		req := httptest.NewRequest(http.MethodPost, "/verif.Svc/M", bytes.NewReader(body))
		req.Header.Set("Content-Type", "application/toy")
		req.Header.Set("Content-Encoding", algo)
		rec := httptest.NewRecorder()
		handler.ServeHTTP(rec, req)
		return rec.Code, rec.Body.Bytes()
	}
	for _, t := range triggers {
		post(t)
	}
	var mu sync.Mutex
	var wg sync.WaitGroup
	for g := 0; g < goroutines; g++ {
		wg.Add(1)
		go func(g int) {
			defer wg.Done()
			for k := 0; k < perG; k++ {
				payload := []byte(fmt.Sprintf("call-%d-%d-", g, k))
				payload = append(payload, bytes.Repeat([]byte{byte('a' + g%26)}, 20+k)...)
				wire := append([]byte{h.TagByte("tagA")}, payload...)
				if algo == "rle" {
					wire = nil
					for _, b := range payload {
						wire = append(wire, 1, b)
					}
				}
				code, body := post(wire)
				if code != 200 || !bytes.Equal(body, append([]byte("echo:"), payload...)) {
					mu.Lock()
					wrong++
					if firstWrong == "" {
						firstWrong = fmt.Sprintf("call %d/%d: HTTP %d, body %q", g, k, code, body[:minInt(len(body), 60)])
					}
					mu.Unlock()
				}
			}
		}(g)
	}
	wg.Wait()
	return tr.Snapshot(), wrong, firstWrong
}

// clientDecompressorSharing is decompressorSharing for a CLIENT: one client with a tracked pooled
// decompressor and a read limit of 256; first calls answered with the trigger bodies (compressed
// unary Connect responses that are corrupt or inflate beyond the limit), then goroutines x perG
// calls at the same time, each answered with the compressed echo of its own request.
func clientDecompressorSharing(triggers [][]byte, goroutines, perG int) (problems []string, wrong int, firstWrong string) {
	tr := &h.Tracker{}
	var trigger atomic.Pointer[[]byte]
	doer := &h.CannedClient{Build: func(req *http.Request) (*http.Response, error) {
		hdr := http.Header{"Content-Type": {"application/toy"}, "Content-Encoding": {"rle"}}
		if t := trigger.Load(); t != nil {
			return h.NewResponse(200, hdr, h.NewChunkBody([][]byte{*t}, h.FinCleanEOF), nil), nil
		}
		var wire []byte
		for _, b := range []byte("echo:" + req.Header.Get("X-Payload")) {
			wire = append(wire, 1, b)
		}
		return h.NewResponse(200, hdr, h.NewChunkBody([][]byte{wire}, h.FinCleanEOF), nil), nil
	}}
	client := connect.NewClient[h.Raw, h.Raw](doer, "http://verif.local/verif.Svc/M", connect.WithCodec(h.ToyCodec{}), h.WithAcceptTrackedRLE(tr), connect.WithReadMaxBytes(256))
	for i := range triggers {
		trigger.Store(&triggers[i])
		_, _ = client.CallUnary(context.Background(), connect.NewRequest(&h.Raw{B: []byte("q")}))
	}
	trigger.Store(nil)
	var mu sync.Mutex
	var wg sync.WaitGroup
	for g := 0; g < goroutines; g++ {
		wg.Add(1)
		go func(g int) {
			defer wg.Done()
			for k := 0; k < perG; k++ {
				payload := fmt.Sprintf("call-%d-%d-%s", g, k, bytes.Repeat([]byte{byte('a' + g%26)}, 20+k))
				req := connect.NewRequest(&h.Raw{B: []byte("q")})
				req.Header().Set("X-Payload", payload)
				var got string
				var err error
				if p := safely(func() {
					var res *connect.Response[h.Raw]
					if res, err = client.CallUnary(context.Background(), req); err == nil {
						got = string(res.Msg.B)
					}
				}); p != nil {
					err = fmt.Errorf("panic: %v", p)
				}
				if err != nil || got != "echo:"+payload {
					mu.Lock()
					wrong++
					if firstWrong == "" {
						firstWrong = fmt.Sprintf("call %d/%d: err=%v, message %q", g, k, err, got[:minInt(len(got), 60)])
					}
					mu.Unlock()
				}
			}
		}(g)
	}
	wg.Wait()
	return tr.Snapshot(), wrong, firstWrong
}

// earlyClient is an HTTPClient that reads only the first few KiB of the request body, stops
// reading (closes it) and answers at once with a canned response: a server, proxy or interceptor
// that judges a call without waiting for a large request.
type earlyClient struct {
	readBytes int
	build     func() *http.Response
}

func (c *earlyClient) Do(req *http.Request) (*http.Response, error) {
	if req.Body != nil {
		buf := make([]byte, c.readBytes)
		_, _ = io.ReadFull(req.Body, buf)
		_ = req.Body.Close()
	}
	return c.build(), nil
}

// failedFirstSendHandler: a server-stream handler whose first Send fails in the codec (nothing is
// written) and which then ends with an error of its own (data_loss, "after the failed send",
// metadata X-E: e1) — returned, or raised as a panic that the recovery function (installed
// when panics is set; *recoveries counts its calls) converts into that error.
func failedFirstSendHandler(panics bool, recoveries *int) *connect.Handler {
	final := func() *connect.Error {
		e := connect.NewError(connect.CodeDataLoss, errors.New("after the failed send"))
		e.Meta().Set("X-E", "e1")
		return e
	}
	hopts := []connect.HandlerOption{connect.WithCodec(h.ToyCodec{})}
	if panics {
		hopts = append(hopts, connect.WithRecover(func(context.Context, connect.Spec, http.Header, any) error {
			*recoveries++
			return final()
		}))
	}
	return connect.NewServerStreamHandler("/verif.Svc/M", func(_ context.Context, _ *connect.Request[h.Raw], st *connect.ServerStream[h.Raw]) error {
		if err := st.Send(&h.Raw{B: []byte{0xEE, 0xEE, 0xEE}}); err != nil { // (the toy codec refuses this payload)
			if panics {
				panic(err)
			}
			return final()
		}
		return nil
	}, hopts...)
}

// failedFirstSendCall makes the call through a real client over the in-process transport.
func failedFirstSendCall(proto string, panics bool) (clientErr error, recoveries int, panicked any) {
	mux := http.NewServeMux()
	mux.Handle("/verif.Svc/M", failedFirstSendHandler(panics, &recoveries))
	copts := []connect.ClientOption{connect.WithCodec(h.ToyCodec{})}
	switch proto {
	case "grpc":
		copts = append(copts, connect.WithGRPC())
	case "grpcweb":
		copts = append(copts, connect.WithGRPCWeb())
	}
	panicked = safely(func() {
		st, err := connect.NewClient[h.Raw, h.Raw](&h.LocalClient{Handler: mux}, "http://verif.local/verif.Svc/M", copts...).CallServerStream(context.Background(), connect.NewRequest(&h.Raw{B: []byte("q")}))
		if err != nil {
			clientErr = err
			return
		}
		for st.Receive() {
		}
		clientErr = st.Err()
		_ = st.Close()
	})
	return
}
