package props

import "encoding/json"

func jsonUnmarshal(b []byte, v any) error { return json.Unmarshal(b, v) }
